package main

import (
	"fmt"
	"go/constant"
	"go/token"
	"sort"
	"strings"

	"golang.org/x/tools/go/ssa"
)

func init() {
	register(&propDef{
		ID: "C09",
		Explanation: "Decides structural necessary conditions of DSD dump/load: " +
			"(R1) format tables agree: the serialization formats validated, dumped and loaded are the same set, likewise the compression formats; FormatToMimeType and MimeTypeToFormat are mutually inverse; " +
			"(R2) every format identifier written (varint.Pack8) is the resolved format (first result of Validate*Format), never the raw AUTO-able parameter, and the data is serialized with that same resolved format; " +
			"(R3) the mime type announced follows the format used: MimeDump returns FormatToMimeType[format], DumpToHTTPResponse sets Content-Type unconditionally before writing, DumpToHTTPRequest announces the format it serializes with; " +
			"(R4) loaders slice their input only at the decoder's count on its success edge and reject an empty payload; (R5) dump functions do not return bytes that alias recycled (pooled) storage; (R6) every constant-bound index/slice of a byte slice or string in the repo functions statically reachable from the loaders (incl. the error-message helpers) is dominated by a length test implying the bound. " +
			"(R7) error discipline over package formats/dsd: " + repoErrText + ". " +
			"(R8) the dump functions never write into memory that may belong to the caller: no append to, copy into or element store through a slice that is (a re-slice of) the serializer's result or the caller's own []byte (RAW hands the caller's slice through); (R9) FormatFromAccept strips media-type parameters (;q=...) from an element before it compares it with anything, wildcards included. " +
			"(R10) the format Load/DecompressAndLoad report is 0 (error), the inner loader's result, the format handed to LoadAsFormat in the same return, or one validated by ValidateSerializationFormat on every path - never the compression wrapper's identifier. " +
			"(R11) sibling agreement (A14): the paired functions consist of the same operations - calls with their constant arguments, comparisons (canonical under negation and operand order), field reads/writes, channel operations, returns, each with the number of conditions it depends on - once the instance-specific names are mapped onto each other; logging is ignored, named differences are listed in the table: LoadFromHTTPRequest ~ LoadFromHTTPResponse. " +
			"(R12) no load path of package dsd reads through a size cap (io.LimitReader / LimitedReader / CopyN). " +
			"NOT decided: value equality through the third-party codecs (JSON/CBOR/MsgPack/YAML), compression correctness.",
		Rules: []ruleFn{c09R1, c09R2, c09R3, c09R4, c09R5, c09R6, c09R8, c09R9, c09R10, func(c *Ctx, r *Report) { siblingRule(c, r, "C09-R11", sibDSD) }, c09R12,
			repoErrRuleFor("C09-R7", 12, func(c *Ctx, fn *ssa.Function) bool { return short(fn.Pkg.Pkg.Path()) == "formats/dsd" }, map[string]string{})},
	})
}

// eqConstsOn collects the integer constants that value-classes of `param` are compared with (==) in fn.
func eqConstsOn(fn *ssa.Function, isSubject func(ssa.Value) bool) map[int64]bool {
	out := map[int64]bool{}
	eachInstr(fn, func(in ssa.Instruction) {
		bo, ok := in.(*ssa.BinOp)
		if !ok || (bo.Op != token.EQL && bo.Op != token.NEQ) { // `x != K { refuse }` is the one-arm spelling of `switch x { case K: ... default: refuse }`
			return
		}
		if isSubject(bo.X) {
			if v, isC := constInt(bo.Y); isC {
				out[v] = true
			}
		}
		if isSubject(bo.Y) {
			if v, isC := constInt(bo.X); isC {
				out[v] = true
			}
		}
	})
	return out
}

func setStr(m map[int64]bool) string {
	var ks []int
	for k := range m {
		ks = append(ks, int(k))
	}
	sort.Ints(ks)
	return fmt.Sprint(ks)
}

// mapLiteral extracts the constant key/value pairs of a package-level map literal.
func (c *Ctx) mapLiteral(pkg, name string) map[string]string {
	sp := c.SSA[pkg]
	if sp == nil {
		return nil
	}
	initFn := sp.Func("init")
	if initFn == nil {
		return nil
	}
	var mk ssa.Value
	eachInstr(initFn, func(in ssa.Instruction) {
		if st, ok := in.(*ssa.Store); ok {
			if g, ok := st.Addr.(*ssa.Global); ok && g.Name() == name {
				mk = st.Val
			}
		}
	})
	if mk == nil {
		return nil
	}
	out := map[string]string{}
	eachInstr(initFn, func(in ssa.Instruction) {
		if mu, ok := in.(*ssa.MapUpdate); ok && mu.Map == mk {
			k, kok := unwrapConv(mu.Key).(*ssa.Const)
			v, vok := unwrapConv(mu.Value).(*ssa.Const)
			if kok && vok && k.Value != nil && v.Value != nil {
				out[constString(k.Value)] = constString(v.Value)
			}
		}
	})
	return out
}

func constString(v constant.Value) string {
	if v.Kind() == constant.String {
		return constant.StringVal(v)
	}
	return v.ExactString()
}

func c09R1(c *Ctx, r *Report) {
	const rule = "C09-R1"
	r.SetFloor(rule, 3)
	auto, _ := c.constVal("formats/dsd", "AUTO")
	get := func(name string, subject func(fn *ssa.Function) func(ssa.Value) bool) (map[int64]bool, bool) {
		fn := c.Func("formats/dsd." + name)
		if fn == nil {
			r.Undecided(rule, "formats/dsd."+name, "anchor function missing")
			return nil, false
		}
		return eqConstsOn(fn, subject(fn)), true
	}
	paramNamed := func(n string) func(fn *ssa.Function) func(ssa.Value) bool {
		return func(fn *ssa.Function) func(ssa.Value) bool {
			return func(v ssa.Value) bool {
				p, ok := v.(*ssa.Parameter)
				return ok && p.Name() == n
			}
		}
	}
	// in dumpWithoutIdentifier the switch is on the validated format (result of ValidateSerializationFormat)
	validated := func(callee string) func(fn *ssa.Function) func(ssa.Value) bool {
		return func(fn *ssa.Function) func(ssa.Value) bool {
			return func(v ssa.Value) bool {
				ex, ok := v.(*ssa.Extract)
				if !ok || ex.Index != 0 {
					return false
				}
				_, isV := isCallTo(ex, callee)
				return isV
			}
		}
	}
	val, ok1 := get("ValidateSerializationFormat", paramNamed("format"))
	dump, ok2 := get("dumpWithoutIdentifier", validated("formats/dsd.ValidateSerializationFormat"))
	load, ok3 := get("LoadAsFormat", paramNamed("format"))
	if ok1 && ok2 && ok3 {
		delete(val, auto)
		r.Check(setStr(val) == setStr(dump) && setStr(dump) == setStr(load) && len(dump) >= 6, rule, "formats/dsd / serialization format tables",
			"validated == dumped == loaded formats: "+setStr(dump), fmt.Sprintf("serialization format tables differ: validated %s, dumped %s, loaded %s", setStr(val), setStr(dump), setStr(load)))
	}
	cval, ok1 := get("ValidateCompressionFormat", paramNamed("format"))
	cdump, ok2 := get("DumpAndCompress", validated("formats/dsd.ValidateCompressionFormat"))
	cload, ok3 := get("DecompressAndLoad", paramNamed("compression"))
	if ok1 && ok2 && ok3 {
		delete(cval, auto)
		r.Check(setStr(cval) == setStr(cdump) && setStr(cdump) == setStr(cload) && len(cdump) >= 1, rule, "formats/dsd / compression format tables",
			"validated == compressed == decompressed formats: "+setStr(cdump), fmt.Sprintf("compression format tables differ: validated %s, compress %s, decompress %s", setStr(cval), setStr(cdump), setStr(cload)))
	}
	// Load dispatches: serialization formats to LoadAsFormat, others to DecompressAndLoad
	f2m := c.mapLiteral("formats/dsd", "FormatToMimeType")
	m2f := c.mapLiteral("formats/dsd", "MimeTypeToFormat")
	if len(f2m) == 0 || len(m2f) == 0 {
		r.Undecided(rule, "formats/dsd mime tables", "map literals not found")
		return
	}
	var bad []string
	for f, mime := range f2m {
		sub := mime
		if i := strings.Index(mime, "/"); i >= 0 {
			sub = mime[i+1:]
		}
		if m2f[sub] != f {
			bad = append(bad, fmt.Sprintf("FormatToMimeType[%s]=%q but MimeTypeToFormat[%q]=%s", f, mime, sub, m2f[sub]))
		}
	}
	for sub, f := range m2f {
		if _, ok := f2m[f]; !ok {
			bad = append(bad, fmt.Sprintf("MimeTypeToFormat[%q]=%s has no mime type in FormatToMimeType", sub, f))
		}
		if !load[atoi64(f)] {
			bad = append(bad, fmt.Sprintf("MimeTypeToFormat[%q]=%s is not a loadable format", sub, f))
		}
	}
	sort.Strings(bad)
	r.Check(len(bad) == 0, rule, "formats/dsd / mime tables are mutually inverse", fmt.Sprintf("%d formats / %d mime subtypes agree", len(f2m), len(m2f)), strings.Join(bad, "; "))
}

func atoi64(s string) int64 {
	var v int64
	fmt.Sscan(s, &v)
	return v
}

func c09R2(c *Ctx, r *Report) {
	const rule = "C09-R2"
	r.SetFloor(rule, 3)
	ord := map[string]int{}
	for _, fn := range c.FuncsIn("formats/dsd") {
		for _, ci := range callsIn(fn, "formats/varint.Pack8") {
			cons := ordinal(ord, fmt.Sprintf("%s / identifier written", fnKey(fn)))
			a := ci.Common().Args[0]
			o := c.Origins(a)
			ok := false
			switch {
			case onlyOrigins(o, "call:formats/dsd.ValidateSerializationFormat#0"), onlyOrigins(o, "call:formats/dsd.ValidateCompressionFormat#0"):
				ok = true
			default:
				if v, isC := constInt(a); isC && v != 0 {
					ok = true
				}
			}
			r.Check(ok, rule, cons, "the identifier is the resolved format", fmt.Sprintf("the identifier written comes from %v: with AUTO the blob names a format the loader rejects", o), c.Pos(ci.Pos()))
			// across ok==true of the validation
			if ex, isEx := a.(*ssa.Extract); isEx {
				call := ex.Tuple.(*ssa.Call)
				g := Guard{Name: "format valid", Truthy: true, Match: func(b ssa.Value) bool {
					e2, ok := b.(*ssa.Extract)
					return ok && e2.Tuple == ssa.Value(call) && e2.Index == 1
				}}
				c.RequireGuards(r, rule, cons, fn, ci, g)
			}
		}
	}
	// DumpIndent: serializes with the same resolved format it announces
	if fn := c.Func("formats/dsd.DumpIndent"); fn == nil {
		r.Undecided(rule, "formats/dsd.DumpIndent", "anchor function missing")
	} else {
		for _, d := range callsIn(fn, "formats/dsd.dumpWithoutIdentifier") {
			for _, p := range callsIn(fn, "formats/varint.Pack8") {
				same := d.Common().Args[1] == p.Common().Args[0]
				r.Check(same, rule, fnKey(fn)+" / announced format is the serialization format", "the same resolved format is announced and used", "the format announced differs from the one the data is serialized with")
			}
		}
	}
	// Load: identifier decides the loader
	if fn := c.Func("formats/dsd.Load"); fn != nil {
		for _, l := range callsIn(fn, "formats/dsd.LoadAsFormat", "formats/dsd.DecompressAndLoad") {
			o := c.Origins(l.Common().Args[1])
			r.Check(onlyOrigins(o, "call:formats/dsd.loadFormat#0"), rule, fnKey(fn)+" / "+descInstr(l)+" uses the identifier read", "loads with the identifier found in the blob", fmt.Sprintf("loads with a format from %v", o))
		}
	}
}

func c09R3(c *Ctx, r *Report) {
	const rule = "C09-R3"
	r.SetFloor(rule, 4)
	isMimeLookup := func(v ssa.Value, formatVal ssa.Value) bool {
		for _, l := range c.Leaves(v) {
			lk, ok := l.(*ssa.Lookup)
			if ex, isEx := l.(*ssa.Extract); isEx {
				lk, ok = ex.Tuple.(*ssa.Lookup)
			}
			if ok && vpath(lk.X) == "global:formats/dsd.FormatToMimeType" {
				if formatVal == nil || lk.Index == formatVal || sameOrigins(c, lk.Index, formatVal) {
					return true
				}
			}
		}
		return false
	}
	if fn := c.Func("formats/dsd.MimeDump"); fn == nil {
		r.Undecided(rule, "formats/dsd.MimeDump", "anchor function missing")
	} else {
		var dumpFmt ssa.Value
		for _, d := range callsIn(fn, "formats/dsd.dumpWithoutIdentifier") {
			dumpFmt = d.Common().Args[1]
		}
		okAll := dumpFmt != nil
		n := 0
		eachInstr(fn, func(in ssa.Instruction) {
			ret, ok := in.(*ssa.Return)
			if !ok {
				return
			}
			// successful returns = those after the dump call
			if ReachTargetAvoiding(fn, ret, nil, isCallInstrTo("formats/dsd.dumpWithoutIdentifier")) != nil {
				return
			}
			n++
			if !isMimeLookup(retVal(ret, 1), dumpFmt) {
				okAll = false
			}
			// the format reported is the one used
			if !sameOrigins(c, retVal(ret, 2), dumpFmt) {
				okAll = false
			}
		})
		r.Check(okAll && n > 0, rule, fnKey(fn)+" / mime type of the format used", "returns FormatToMimeType[format] for the format it serialized with",
			"MimeDump does not return the mime type belonging to the format it serialized with (e.g. an empty string): the HTTP peer cannot decode the body")
	}
	if fn := c.Func("formats/dsd.DumpToHTTPResponse"); fn == nil {
		r.Undecided(rule, "formats/dsd.DumpToHTTPResponse", "anchor function missing")
	} else {
		isSetCT := func(in ssa.Instruction) bool {
			ci, ok := in.(*ssa.Call)
			if !ok || calleeName(&ci.Call) != "net/http.Header.Set" {
				return false
			}
			k, isC := ci.Call.Args[1].(*ssa.Const)
			if !isC || k.Value == nil || !strings.EqualFold(constString(k.Value), "Content-Type") {
				return false
			}
			return onlyOrigins(c.Origins(ci.Call.Args[2]), "call:formats/dsd.MimeDump#1")
		}
		var writes []ssa.Instruction
		eachInstr(fn, func(in ssa.Instruction) {
			if ci, ok := in.(*ssa.Call); ok && ci.Call.IsInvoke() && ci.Call.Method.Name() == "Write" {
				writes = append(writes, in)
			}
		})
		if len(writes) == 0 {
			r.Bad(rule, fnKey(fn)+" / writes the body", "the response body is never written")
		}
		for _, w := range writes {
			r.Check(MustPrecede(fn, isSetCT, w), rule, fnKey(fn)+" / Content-Type set before the body", "Content-Type is set to MimeDump's mime type on every path before the body is written",
				"the body can be written without Content-Type being set to the mime type of the encoding used (e.g. only when absent): a pre-set Content-Type misnames the encoding", c.Pos(w.Pos()))
			// body is MimeDump's data
			o := c.Origins(w.(*ssa.Call).Call.Args[0])
			r.Check(onlyOrigins(o, "call:formats/dsd.MimeDump#0"), rule, fnKey(fn)+" / body is the dumped data", "writes MimeDump's data", fmt.Sprintf("writes %v", o))
		}
	}
	if fn := c.Func("formats/dsd.DumpToHTTPRequest"); fn == nil {
		r.Undecided(rule, "formats/dsd.DumpToHTTPRequest", "anchor function missing")
	} else {
		var dumpFmt, annFmt ssa.Value
		for _, d := range callsIn(fn, "formats/dsd.dumpWithoutIdentifier") {
			dumpFmt = d.Common().Args[1]
		}
		for _, d := range callsIn(fn, "formats/dsd.RequestHTTPResponseFormat") {
			annFmt = d.Common().Args[1]
		}
		r.Check(dumpFmt != nil && annFmt != nil && (dumpFmt == annFmt || sameOrigins(c, dumpFmt, annFmt)), rule, fnKey(fn)+" / announces the format it serializes with", "same format for Content-Type/Accept and serialization", "the announced format differs from the serialization format")
		okCT := false
		eachInstr(fn, func(in ssa.Instruction) {
			if ci, ok := in.(*ssa.Call); ok && calleeName(&ci.Call) == "net/http.Header.Set" {
				if k, isC := ci.Call.Args[1].(*ssa.Const); isC && k.Value != nil && strings.EqualFold(constString(k.Value), "Content-Type") {
					if onlyOrigins(c.Origins(ci.Call.Args[2]), "call:formats/dsd.RequestHTTPResponseFormat#0") {
						okCT = true
					}
				}
			}
		})
		r.Check(okCT, rule, fnKey(fn)+" / Content-Type", "Content-Type is the mime type of the announced format", "Content-Type is not set from the announced format's mime type")
	}
	if fn := c.Func("formats/dsd.RequestHTTPResponseFormat"); fn != nil {
		ok := false
		eachInstr(fn, func(in ssa.Instruction) {
			if ret, isRet := in.(*ssa.Return); isRet && isNilConst(retVal(ret, 1)) {
				if isMimeLookup(retVal(ret, 0), fn.Params[1]) {
					ok = true
				}
			}
		})
		r.Check(ok, rule, fnKey(fn)+" / mime type of the requested format", "returns FormatToMimeType[format]", "does not return the requested format's mime type")
	}
}

func sameOrigins(c *Ctx, a, b ssa.Value) bool {
	if a == nil || b == nil {
		return false
	}
	if a == b {
		return true
	}
	oa, ob := c.Origins(a), c.Origins(b)
	return len(oa) > 0 && strings.Join(oa, ",") == strings.Join(ob, ",")
}

func c09R4(c *Ctx, r *Report) {
	const rule = "C09-R4"
	r.SetFloor(rule, 3)
	for _, name := range []string{"formats/dsd.Load", "formats/dsd.DecompressAndLoad"} {
		fn := c.Func(name)
		if fn == nil {
			r.Undecided(rule, name, "anchor function missing")
			continue
		}
		k := 0
		eachInstr(fn, func(in ssa.Instruction) {
			sl, ok := in.(*ssa.Slice)
			if !ok || sl.Low == nil {
				return
			}
			k++
			cons := fmt.Sprintf("%s / data[read:] #%d", name, k)
			ex, isEx := sl.Low.(*ssa.Extract)
			okP := false
			if isEx && ex.Index == 1 {
				if call, isCall := isCallTo(ex, "formats/dsd.loadFormat"); isCall {
					okP = true
					// the slice is of the same data the format was read from
					r.Check(call.Call.Args[0] == sl.X || sameOrigins(c, call.Call.Args[0], sl.X), rule, cons+" / same input", "slices the blob the identifier was read from", "slices a different buffer than the one the identifier was read from")
					g := Guard{Name: "loadFormat error == nil", Truthy: false, Match: func(b ssa.Value) bool {
						e2, ok := b.(*ssa.Extract)
						return ok && e2.Tuple == ssa.Value(call) && e2.Index == 2
					}}
					c.RequireGuards(r, rule, cons, fn, sl, g)
				}
			}
			r.Check(okP, rule, cons+" / offset provenance", "offset is loadFormat's byte count", "the payload offset is not the identifier's byte count")
		})
	}
	if fn := c.Func("formats/dsd.loadFormat"); fn == nil {
		r.Undecided(rule, "formats/dsd.loadFormat", "anchor function missing")
	} else {
		// success return only across len(data) > read
		eachInstr(fn, func(in ssa.Instruction) {
			ret, ok := in.(*ssa.Return)
			if !ok || !isNilConst(retVal(ret, 2)) {
				return
			}
			g := Guard{Name: "len(data) > read", Truthy: false, Match: func(b ssa.Value) bool {
				bo, ok := b.(*ssa.BinOp)
				if !ok || bo.Op != token.LEQ {
					return false
				}
				call, ok := bo.X.(*ssa.Call)
				return ok && calleeName(&call.Call) == "builtin.len" && call.Call.Args[0] == ssa.Value(fn.Params[0])
			}}
			g2 := Guard{Name: "Unpack8 error == nil", Truthy: false, Match: func(b ssa.Value) bool {
				ex, ok := b.(*ssa.Extract)
				if !ok || ex.Index != 2 {
					return false
				}
				_, isU := isCallTo(ex, "formats/varint.Unpack8")
				return isU
			}}
			c.RequireGuards(r, rule, fnKey(fn)+" / success", fn, ret, g, g2)
		})
	}
}

func c09R5(c *Ctx, r *Report) {
	const rule = "C09-R5"
	n := 0
	for _, fn := range c.FuncsIn("formats/dsd") {
		puts := callsIn(fn, "sync.Pool.Put")
		for _, a := range fn.AnonFuncs {
			puts = append(puts, callsIn(a, "sync.Pool.Put")...)
		}
		if len(puts) == 0 {
			continue
		}
		n++
		// any returned []byte derived from a call on a pooled object?
		bad := false
		eachInstr(fn, func(in ssa.Instruction) {
			ret, ok := in.(*ssa.Return)
			if !ok {
				return
			}
			for i := range ret.Results {
				for _, l := range c.Leaves(retVal(ret, i)) {
					if call, isCall := l.(*ssa.Call); isCall && strings.HasPrefix(calleeName(&call.Call), "bytes.Buffer.") {
						for _, l2 := range c.Leaves(call.Call.Args[0]) {
							if hasOrigin(c.Origins(l2), "call:sync.Pool.Get") {
								bad = true
							}
						}
					}
				}
			}
		})
		r.Check(!bad, rule, fnKey(fn)+" / returned bytes do not alias pooled storage", "no returned slice aliases a buffer that is put back into a pool", "the function returns bytes of a buffer that it also returns to a sync.Pool: the next call overwrites data the caller still holds")
	}
	if n == 0 {
		r.Trivial(rule, "formats/dsd / buffer pooling", "no buffer recycling in package dsd: returned bytes are freshly allocated")
	}
}

func c09R6(c *Ctx, r *Report) {
	const rule = "C09-R6"
	r.SetFloor(rule, 1)
	boundsRule(c, r, rule, "load of an arbitrary byte string",
		"formats/dsd.Load", "formats/dsd.LoadAsFormat", "formats/dsd.DecompressAndLoad", "formats/dsd.loadFormat",
		"formats/dsd.LoadFromHTTPRequest", "formats/dsd.LoadFromHTTPResponse", "formats/dsd.MimeLoad")
}

// c09R8: no in-place writes into possibly caller-owned bytes.
func c09R8(c *Ctx, r *Report) {
	const rule = "C09-R8"
	r.SetFloor(rule, 2)
	n := 0
	for _, fn := range c.FuncsIn("formats/dsd") {
		if fn.Blocks == nil || !strings.HasPrefix(fn.Name(), "Dump") && !strings.HasPrefix(fn.Name(), "dump") {
			continue
		}
		tainted := map[ssa.Value]bool{}
		for changed := true; changed; {
			changed = false
			eachInstr(fn, func(in ssa.Instruction) {
				v, ok := in.(ssa.Value)
				if !ok || tainted[v] {
					return
				}
				hit := false
				switch x := in.(type) {
				case *ssa.Extract:
					if call, ok := x.Tuple.(*ssa.Call); ok && x.Index == 0 {
						cn := calleeName(&call.Call)
						hit = cn == "formats/dsd.dumpWithoutIdentifier" || cn == "formats/dsd.DumpIndent" || cn == "formats/dsd.Dump"
					}
					if ta, ok := x.Tuple.(*ssa.TypeAssert); ok && x.Index == 0 {
						_, isParam := ta.X.(*ssa.Parameter)
						hit = isParam && isSliceOrString(ta.AssertedType)
					}
				case *ssa.TypeAssert:
					_, isParam := x.X.(*ssa.Parameter)
					hit = isParam && !x.CommaOk && isSliceOrString(x.AssertedType)
				case *ssa.Slice:
					hit = tainted[x.X]
				case *ssa.Phi:
					for _, e := range x.Edges {
						hit = hit || tainted[e]
					}
				case *ssa.Call:
					if calleeName(&x.Call) == "builtin.append" {
						hit = tainted[x.Call.Args[0]]
					}
				}
				if hit {
					tainted[v] = true
					changed = true
				}
			})
		}
		if len(tainted) == 0 {
			continue
		}
		n++
		var bad []string
		eachInstr(fn, func(in ssa.Instruction) {
			switch x := in.(type) {
			case *ssa.Call:
				cn := calleeName(&x.Call)
				if (cn == "builtin.append" || cn == "builtin.copy") && tainted[x.Call.Args[0]] {
					bad = append(bad, fmt.Sprintf("%s into a slice that may be the caller's at %s", cn, c.Pos(x.Pos())))
				}
			case *ssa.Store:
				if ia, ok := x.Addr.(*ssa.IndexAddr); ok && tainted[ia.X] {
					bad = append(bad, "element store through a slice that may be the caller's at "+c.Pos(x.Pos()))
				}
			}
		})
		r.Check(len(bad) == 0, rule, fnKey(fn)+" / serialized or caller-owned bytes are only read",
			"no append to / copy into / store through such a slice", "dump writes in place into bytes it does not own ("+strings.Join(firstN(bad, 2), "; ")+"): with RAW the caller's own slice is modified and the returned blob aliases it")
	}
	if n == 0 {
		r.Undecided(rule, "formats/dsd dump functions", "no dump function handles serializer results")
	}
}

// c09R9: parameters are stripped before any comparison of an Accept element.
func c09R9(c *Ctx, r *Report) {
	const rule = "C09-R9"
	r.SetFloor(rule, 2)
	fn := c.Func("formats/dsd.FormatFromAccept")
	if fn == nil {
		r.Undecided(rule, "formats/dsd.FormatFromAccept", "anchor function missing")
		return
	}
	isStr := func(v ssa.Value, want string) bool {
		cst, ok := v.(*ssa.Const)
		return ok && cst.Value != nil && cst.Value.Kind() == constant.String && constant.StringVal(cst.Value) == want
	}
	// 1 = went through the ';' strip, 0 = reaches the raw list element without a strip, -1 = shape not understood
	var stripped func(v ssa.Value, depth int) int
	stripped = func(v ssa.Value, depth int) int {
		if depth > 8 {
			return -1
		}
		switch x := v.(type) {
		case *ssa.Extract:
			if call, ok := x.Tuple.(*ssa.Call); ok {
				if calleeName(&call.Call) == "strings.Cut" {
					if isStr(call.Call.Args[1], ";") {
						if x.Index == 0 {
							return 1
						}
						return -1
					}
					return stripped(call.Call.Args[0], depth+1)
				}
			}
		case *ssa.Call:
			switch calleeName(&x.Call) {
			case "strings.TrimSpace", "strings.ToLower", "strings.Trim", "strings.TrimPrefix", "strings.TrimSuffix":
				return stripped(x.Call.Args[0], depth+1)
			}
		case *ssa.Phi:
			res := 1
			for _, e := range x.Edges {
				if k := stripped(e, depth+1); k < res {
					res = k
				}
			}
			return res
		case *ssa.Slice:
			if x.High != nil {
				if call, ok := x.High.(*ssa.Call); ok && (calleeName(&call.Call) == "strings.Index" || calleeName(&call.Call) == "strings.IndexByte") && isStr(call.Call.Args[1], ";") {
					return 1
				}
			}
			return stripped(x.X, depth+1)
		case *ssa.UnOp:
			if ia, ok := x.X.(*ssa.IndexAddr); ok {
				if call, ok := ia.X.(*ssa.Call); ok {
					cn := calleeName(&call.Call)
					if cn == "strings.Split" || cn == "strings.SplitN" {
						if isStr(call.Call.Args[1], ";") {
							if k, isC := constInt(ia.Index); isC && k == 0 {
								return 1
							}
							return -1
						}
						if isStr(call.Call.Args[1], ",") {
							return 0 // the raw Accept element
						}
					}
				}
			}
		}
		return -1
	}
	n := 0
	check := func(subject ssa.Value, what string, pos ssa.Instruction) {
		n++
		cons := fmt.Sprintf("formats/dsd.FormatFromAccept / %s uses the element without parameters", what)
		switch stripped(subject, 0) {
		case 1:
			r.OK(rule, cons, "the compared value went through the ';' strip")
		case 0:
			r.Bad(rule, cons, "an Accept element is compared before its parameters (;q=...) were stripped: '*/*;q=0.8' is not recognised as a wildcard / format", c.Pos(pos.Pos()))
		default:
			r.Undecided(rule, cons, "the derivation of the compared value is not understood: "+vpath(subject))
		}
	}
	ord := map[string]int{}
	eachInstr(fn, func(in ssa.Instruction) {
		switch x := in.(type) {
		case *ssa.BinOp:
			if x.Op != token.EQL && x.Op != token.NEQ {
				return
			}
			for _, pair := range [][2]ssa.Value{{x.X, x.Y}, {x.Y, x.X}} {
				if cst, ok := pair[1].(*ssa.Const); ok && cst.Value != nil && cst.Value.Kind() == constant.String && strings.Contains(constant.StringVal(cst.Value), "*") {
					check(pair[0], ordinal(ord, "wildcard comparison"), x)
				}
			}
		case *ssa.Call:
			cn := calleeName(&x.Call)
			if (cn == "strings.HasSuffix" || cn == "strings.HasPrefix") && len(x.Call.Args) == 2 {
				if cst, ok := x.Call.Args[1].(*ssa.Const); ok && cst.Value != nil && cst.Value.Kind() == constant.String && strings.Contains(constant.StringVal(cst.Value), "*") {
					check(x.Call.Args[0], ordinal(ord, "wildcard comparison"), x)
				}
			}
		case *ssa.Lookup:
			if strings.HasSuffix(vpath(x.X), "MimeTypeToFormat") {
				check(x.Index, ordinal(ord, "format table lookup"), x)
			}
		}
	})
	if n == 0 {
		r.Undecided(rule, fnKey(fn), "no comparison of an Accept element found")
	}
}
