package main

import (
	"fmt"
	"strings"

	"golang.org/x/tools/go/ssa"
)

// fieldLoad: v is a load of struct field owner.name; returns the struct pointer it is loaded from.
func fieldLoad(v ssa.Value) (base ssa.Value, fr fieldRef, ok bool) {
	u, isU := v.(*ssa.UnOp)
	if !isU || u.Op.String() != "*" {
		return nil, fieldRef{}, false
	}
	fa, isFA := u.X.(*ssa.FieldAddr)
	if !isFA {
		return nil, fieldRef{}, false
	}
	fr, _ = fieldOfAddr(fa)
	return fa.X, fr, true
}

// sameFieldLoadGuard: passed when a load of the same field of the same struct value as v is non-nil.
func sameFieldLoadGuard(v ssa.Value) (Guard, bool) {
	b0, f0, ok := fieldLoad(v)
	if !ok {
		return Guard{}, false
	}
	return Guard{Name: f0.Owner + "." + f0.Name + " != nil", Truthy: true, Match: func(b ssa.Value) bool {
		b1, f1, ok := fieldLoad(b)
		return ok && b1 == b0 && f1 == f0
	}}, true
}

// c06R11: in every deferred recover() closure around managed code, each path on
// which recover() returned non-nil reports the panic through the module error
// channel before the closure ends (no further condition may skip the report).
func c06R11(c *Ctx, r *Report) {
	const rule = "C06-R11"
	r.SetFloor(rule, 5)
	for _, fn := range c.allFuncs {
		if fn.Pkg == nil || fn.Blocks == nil {
			continue
		}
		p := short(fn.Pkg.Pkg.Path())
		if p != "modules" && p != "api" {
			continue
		}
		for _, ri := range c.findRecoverDefers(fn) {
			ri := ri
			cons := fnKey(ri.Closure) + " / every panic path reports"
			isReportCall := isCallInstrTo("modules.ModuleError.Report")
			var alwaysReports func(f *ssa.Function, d int) bool
			alwaysReports = func(f *ssa.Function, d int) bool {
				if f == nil || f.Blocks == nil || d > 2 {
					return false
				}
				return ReachInstr(f, nil, isExit, func(in ssa.Instruction) bool {
					if isReportCall(in) {
						return true
					}
					ci, ok := in.(ssa.CallInstruction)
					return ok && alwaysReports(staticCallee(ci.Common()), d+1)
				}) == nil
			}
			isReport := func(in ssa.Instruction) bool {
				if isReportCall(in) {
					return true
				}
				ci, ok := in.(ssa.CallInstruction)
				if !ok {
					return false
				}
				if _, isDefer := in.(*ssa.Defer); isDefer {
					return false
				}
				return alwaysReports(staticCallee(ci.Common()), 1)
			}
			if !funcHas(ri.Closure, 0, isReport) {
				r.Bad(rule, cons, "the recovery handler never calls ModuleError.Report: a recovered panic is not reported through the module error channel", c.Pos(ri.Defer.Pos()))
				continue
			}
			noPanic := Guard{Name: "recover()==nil", Truthy: false, Match: func(b ssa.Value) bool { return b == ssa.Value(ri.Recover) }}
			path := ReachFromAvoiding(ri.Closure, ri.Recover, isExit, []Guard{noPanic}, isReport)
			r.Check(path == nil, rule, cons,
				"from recover() every path that did not establish recover()==nil passes ModuleError.Report before the handler returns",
				"a recovered panic can leave the handler without being reported (an additional condition guards the report): "+strings.Join(c.pathString(path), " -> "), c.Pos(ri.Defer.Pos()))
		}
	}
}

// c06R12: a lifecycle pass never forgets the error a module's report carried:
// where report.err is found non-nil the pass either returns a fresh non-nil
// error, or keeps it in an accumulator that later iterations can only replace
// by another non-nil error, and that accumulator is what the pass returns.
func c06R12(c *Ctx, r *Report) {
	const rule = "C06-R12"
	r.SetFloor(rule, 4)
	for _, name := range []string{"modules.prepareModules", "modules.startModules", "modules.stopModules"} {
		fn := c.Func(name)
		if fn == nil {
			r.Undecided(rule, name, "anchor function missing")
			continue
		}
		reach := blockReach(fn)
		n := 0
		for _, b := range fn.Blocks {
			if len(b.Instrs) == 0 {
				continue
			}
			ifi, ok := b.Instrs[len(b.Instrs)-1].(*ssa.If)
			if !ok {
				continue
			}
			base, pos := peel(ifi.Cond)
			_, fr, isL := fieldLoad(base)
			if !isL || fr.Owner != "modules.report" || fr.Name != "err" {
				continue
			}
			n++
			cons := fmt.Sprintf("%s / report error test #%d", name, n)
			succ := b.Succs[0]
			if !pos {
				succ = b.Succs[1]
			}
			nilRet := func(in ssa.Instruction) bool {
				ret, ok := in.(*ssa.Return)
				return ok && len(ret.Results) > 0 && isNilConst(retVal(ret, len(ret.Results)-1))
			}
			path := reachFromBlockStart(fn, succ, nilRet, nil, nil)
			r.Check(path == nil, rule, cons, "once a report carried an error no 'return nil' is reachable",
				"after a module reported an error the pass can still return a literal nil: "+strings.Join(c.pathString(path), " -> "), c.Pos(ifi.Pos()))
		}
		if n == 0 {
			r.Bad(rule, name+" / report error test", "the pass never tests report.err: a failed or panicked lifecycle routine goes unnoticed")
		}
		// accumulators
		seen := map[*ssa.Phi]bool{}
		var checkPhi func(ph *ssa.Phi)
		checkPhi = func(ph *ssa.Phi) {
			if seen[ph] {
				return
			}
			seen[ph] = true
			cons := fmt.Sprintf("%s / returned error accumulator %s is sticky", name, ph.Comment)
			for i, e := range ph.Edges {
				pred := ph.Block().Preds[i]
				back := reach[ph.Block()][pred]
				switch x := e.(type) {
				case *ssa.Phi:
					checkPhi(x)
					continue
				case *ssa.Const:
					if x.Value == nil && !back {
						continue // initial value
					}
					if x.Value == nil {
						r.Bad(rule, cons, "the accumulated error is reset to nil inside the loop: an earlier module's failure is forgotten", c.Pos(ph.Pos()))
						continue
					}
				}
				if cn, ok := e.(*ssa.Call); ok {
					if n := calleeName(&cn.Call); n == "fmt.Errorf" || n == "errors.New" {
						continue
					}
				}
				g, ok := sameFieldLoadGuard(e)
				if !ok {
					r.Undecided(rule, cons, fmt.Sprintf("edge %d assigns %s, which is not a report error; cannot decide that it is non-nil", i, e.String()))
					continue
				}
				r.Check(phiEdgeGuarded(fn, ph, i, g), rule, fmt.Sprintf("%s / edge %d", cons, i),
					"the accumulator is overwritten only by a report error that was tested non-nil",
					"the accumulator is overwritten by a report's error without a non-nil test: a later successful report erases an earlier failure and the pass returns nil", c.Pos(ph.Pos()))
			}
		}
		eachInstr(fn, func(in ssa.Instruction) {
			ret, ok := in.(*ssa.Return)
			if !ok || len(ret.Results) == 0 {
				return
			}
			if ph, ok := retVal(ret, len(ret.Results)-1).(*ssa.Phi); ok {
				checkPhi(ph)
			}
		})
	}
}

// blockReach[a][b]: b is reachable from a (over one or more edges).
func blockReach(fn *ssa.Function) map[*ssa.BasicBlock]map[*ssa.BasicBlock]bool {
	out := map[*ssa.BasicBlock]map[*ssa.BasicBlock]bool{}
	for _, a := range fn.Blocks {
		m := map[*ssa.BasicBlock]bool{}
		st := append([]*ssa.BasicBlock{}, a.Succs...)
		for len(st) > 0 {
			x := st[len(st)-1]
			st = st[:len(st)-1]
			if m[x] {
				continue
			}
			m[x] = true
			st = append(st, x.Succs...)
		}
		out[a] = m
	}
	return out
}
