package main

import (
	"fmt"
	"go/types"
	"sort"
	"strings"

	"golang.org/x/tools/go/ssa"
)

var errorType = types.Universe.Lookup("error").Type()

// A13: errors converted into success.
//
// A swallow site is a test "e != nil" on an error value in a function that
// itself returns an error, from whose failing side a "return ..., nil" is
// reachable. Each site must be listed in the rule's table with the exact
// condition under which the error may be tolerated (guards that every such
// path has to pass); unlisted sites and paths that avoid the listed guards are
// violations.
type swallowSpec struct {
	Guards []Guard // every path from the failing side to a nil-error return passes one of these
	Reason string
}

func errSwallowSites(c *Ctx, fn *ssa.Function) []*ssa.If {
	var out []*ssa.If
	res := fn.Signature.Results()
	if res.Len() == 0 || !types.Identical(res.At(res.Len()-1).Type(), errorType) {
		return nil
	}
	for _, b := range fn.Blocks {
		if len(b.Instrs) == 0 {
			continue
		}
		ifi, ok := b.Instrs[len(b.Instrs)-1].(*ssa.If)
		if !ok {
			continue
		}
		bo, ok := ifi.Cond.(*ssa.BinOp)
		if !ok {
			continue
		}
		var e ssa.Value
		if isNilConst(bo.Y) {
			e = bo.X
		} else if isNilConst(bo.X) {
			e = bo.Y
		}
		if e == nil || !types.Identical(e.Type(), errorType) {
			continue
		}
		out = append(out, ifi)
	}
	return out
}

func isNilErrReturn(in ssa.Instruction) bool {
	ret, ok := in.(*ssa.Return)
	if !ok || len(ret.Results) == 0 {
		return false
	}
	return isNilConst(retVal(ret, len(ret.Results)-1))
}

func errSwallowRule(c *Ctx, r *Report, rule string, floor int, sel func(fn *ssa.Function) bool, relevant func(fn *ssa.Function, e ssa.Value) bool, table map[string]swallowSpec) {
	r.SetFloor(rule, floor)
	used := map[string]bool{}
	for _, fn := range c.allFuncs {
		if fn.Blocks == nil || !sel(fn) {
			continue
		}
		ord := map[string]int{}
		for _, ifi := range errSwallowSites(c, fn) {
			base, pos := peel(ifi.Cond)
			if relevant != nil && !relevant(fn, base) {
				continue
			}
			succ := ifi.Block().Succs[0]
			if !pos {
				succ = ifi.Block().Succs[1]
			}
			desc := leafDesc(base)
			if ph, ok := base.(*ssa.Phi); ok {
				desc = "var " + ph.Comment
			}
			cons := ordinal(ord, fmt.Sprintf("%s / error %s", fnKey(fn), desc))
			spec, listed := table[cons]
			key := cons
			if !listed {
				// an entry keyed by the error's origin alone applies wherever that error is tested (robust against code moving between functions)
				if sp, ok := table["error "+desc]; ok {
					spec, listed, key = sp, true, "error "+desc
				}
			}
			// start at the test itself with its nil edge barred, so that the search knows the error is non-nil (it may be merged into a result that is tested again)
			_ = succ
			nilEdge := Guard{Name: "this error == nil", Truthy: false, Match: func(b ssa.Value) bool { return b == base }}
			p := reachFromBlockStart(fn, ifi.Block(), isNilErrReturn, append(append([]Guard{}, spec.Guards...), nilEdge), nil)
			if p == nil {
				if listed && len(spec.Guards) == 0 {
					used[key] = true
				}
				r.OK(rule, cons, "a failure here never ends in a success return"+map[bool]string{true: " other than across the listed condition (" + spec.Reason + ")", false: ""}[listed && len(spec.Guards) > 0])
				if listed {
					used[key] = true
				}
				continue
			}
			if listed && len(spec.Guards) == 0 {
				used[key] = true
				r.Trivial(rule, cons, "tolerated by design: "+spec.Reason)
				continue
			}
			if listed {
				used[key] = true
			}
			why := "the error is tested and the function can still return success"
			if listed {
				why = "the function returns success after this error on a path that avoids the only tolerated condition (" + spec.Reason + ")"
			}
			r.Bad(rule, cons, why+": "+strings.Join(c.pathString(p), " -> "), c.Pos(ifi.Pos()))
		}
	}
	var stale []string
	for k := range table {
		if !used[k] {
			stale = append(stale, k)
		}
	}
	sort.Strings(stale)
	for _, k := range stale {
		r.Undecided(rule, k, "table entry matches no site any more (anchor lost): re-confirm the table")
	}
}

// errIsGuard: passed when errors.Is(_, <pkg>.<name>) is true (pkg = full import path).
func errIsGuard(pkg, name string) Guard {
	return Guard{Name: "errors.Is(err, " + pkg + "." + name + ")", Truthy: true, Match: func(b ssa.Value) bool {
		call, ok := isCallTo(b, "errors.Is")
		if !ok || len(call.Call.Args) != 2 {
			return false
		}
		u, ok := call.Call.Args[1].(*ssa.UnOp)
		if !ok {
			return false
		}
		g, ok := u.X.(*ssa.Global)
		return ok && g.Name() == name && g.Pkg != nil && g.Pkg.Pkg.Path() == pkg
	}}
}

// errorLostOnSomePath: the error produced by call is neither examined,
// returned, stored nor passed on along some path from the call to an exit of
// fn - typically because a later assignment to the same variable overwrites it
// before the test ("err = a(); if cond { err = b() }; if err != nil").
// Errors that are discarded outright (no use at all) are A10's business and
// are not reported here.
func errorLostOnSomePath(fn *ssa.Function, call *ssa.Call) []*ssa.BasicBlock {
	sig := callSignature(&call.Call)
	if sig == nil {
		return nil
	}
	idx := errorResultIndex(sig)
	if idx < 0 {
		return nil
	}
	carriers := map[ssa.Value]bool{}
	var startAfter ssa.Instruction = call
	if sig.Results().Len() == 1 {
		carriers[call] = true
	} else {
		for _, ref := range *call.Referrers() {
			if ex, ok := ref.(*ssa.Extract); ok && ex.Index == idx {
				carriers[ex] = true
			}
		}
	}
	if len(carriers) == 0 {
		return nil
	}
	uses := map[ssa.Instruction]bool{}
	phiUse := map[*ssa.Phi]bool{}
	n := 0
	for v := range carriers {
		for _, ref := range *v.Referrers() {
			switch x := ref.(type) {
			case *ssa.DebugRef:
			case *ssa.Phi:
				phiUse[x] = true
				n++
			default:
				uses[ref] = true
				n++
			}
		}
	}
	if n == 0 {
		return nil // discarded outright: A10
	}
	type pos struct {
		b *ssa.BasicBlock
		i int
	}
	b0 := startAfter.Block()
	start := 0
	for i, in := range b0.Instrs {
		if in == startAfter {
			start = i + 1
		}
	}
	type node struct {
		p    pos
		prev *node
	}
	queue := []*node{{p: pos{b0, start}}}
	seen := map[*ssa.BasicBlock]bool{}
	for len(queue) > 0 {
		nd := queue[0]
		queue = queue[1:]
		b := nd.p.b
		consumed := false
		exit := false
		for _, in := range b.Instrs[nd.p.i:] {
			if uses[in] {
				consumed = true
				break
			}
			switch in.(type) {
			case *ssa.Return:
				exit = true
			}
		}
		if consumed {
			continue
		}
		if exit {
			var path []*ssa.BasicBlock
			for x := nd; x != nil; x = x.prev {
				path = append([]*ssa.BasicBlock{x.p.b}, path...)
			}
			return path
		}
		for _, s := range b.Succs {
			pi := -1
			for k, p := range s.Preds {
				if p == b {
					pi = k
				}
			}
			edgeUse := false
			for _, in := range s.Instrs {
				ph, ok := in.(*ssa.Phi)
				if !ok {
					break
				}
				if phiUse[ph] && pi >= 0 && carriers[ph.Edges[pi]] {
					edgeUse = true
				}
			}
			if edgeUse || seen[s] {
				continue
			}
			seen[s] = true
			queue = append(queue, &node{p: pos{s, 0}, prev: nd})
		}
	}
	return nil
}

// probeErrLost lists every call whose error can be lost on some path (development aid).
func probeErrLost(c *Ctx) {
	n := 0
	for _, fn := range c.allFuncs {
		if fn.Blocks == nil {
			continue
		}
		eachInstr(fn, func(in ssa.Instruction) {
			call, ok := in.(*ssa.Call)
			if !ok {
				return
			}
			if p := errorLostOnSomePath(fn, call); p != nil {
				n++
				fmt.Println("ERRLOST", fnKey(fn), "/", calleeNameOr(call), "@", c.Pos(call.Pos()), strings.Join(c.pathString(p), " -> "))
			}
		})
	}
	fmt.Println("lost:", n)
}
