package main

import (
	"fmt"
	"go/constant"
	"go/token"
	"go/types"
	"strings"

	"golang.org/x/tools/go/ssa"
)

func init() {
	register(&propDef{
		ID: "C12",
		Explanation: "Decides structural necessary conditions of 'an API handler runs only for requests holding the permission it requires': " +
			"(R1) in mainHandler.handle the authenticator and the handler are reachable only across the origin decision (no Origin, or one of the four documented acceptance comparisons), route match, effective method, a non-nil authentication result, module readiness and a non-nil handler; " +
			"(R2) the decision table of authenticateRequest over required x granted permission x method class x credential outcome (finite-valuation propagation with a tracked token object): a token is returned only if the statement allows it, and the method class selects the same side for required and granted permission; " +
			"(R3) credential sources: Self only in dev mode, bridge permission only for the bridge address, an API-key token only on a map hit that is not expired and under the key lock, a session token only on a live map hit, keys are stored only past all parse/expiry rejections and the key map is cleared on every update, parseAPIPermission never yields Self; " +
			"(R4) every constant-bound slice of a request-derived string is dominated by a sufficient length test; (R5) method-class table of getEffectiveMethod and the Read/Write permission lookups; " +
			"(R6) per-key state is per key: every pointer stored into an API-key token or the key map inside updateAPIKeys' loop (the token, its expiry time) is allocated anew between any two executions of the store, so no two keys share an expiry. " +
			"(R7) lock pairing over the functions of package(s) api: " + lockRuleText + ". " +
			"(R8) error discipline over package api without the database API: " + repoErrText + ". " +
			"(R9) a session is refreshed (its lifetime extended) only after it was found not to be expired - also when the refresh is deferred; " +
			"(R10) authReset deletes the session named by the presented cookie on every path on which the request carries one; " +
			"(R11) sibling agreement (A14): the paired functions consist of the same operations - calls with their constant arguments, comparisons (canonical under negation and operand order), field reads/writes, channel operations, returns, each with the number of conditions it depends on - once the instance-specific names are mapped onto each other; logging is ignored, named differences are listed in the table: the authBearer ~ authBasic endpoints; " +
			"(R12) after checkAuth has written an error response (http.Error) every reachable return reports handled = true, so the handler never runs behind an error answer; " +
			"(R13) no AuthToken field is assigned from the other field of a token (Read from Write or the reverse); (R14) decision table of parseAPIPermission: \"\" and anyone -> PermitAnyone, user -> PermitUser, admin -> PermitAdmin; " +
			"NOT decided: net/http and gorilla/mux behaviour, the header grammar beyond guards, session TTL timing.",
		Rules: []ruleFn{c12R1, c12R2, c12R3, c12R4, c12R5, c12R6,
			lockRuleFor("C12-R7", 12, []string{"api"}, []string{}, map[string]string{}),
			repoErrRuleFor("C12-R8", 30, func(c *Ctx, fn *ssa.Function) bool {
				return short(fn.Pkg.Pkg.Path()) == "api" && !inFile(c, fn, "api/database.go")
			}, map[string]string{"api.(*mainHandler).ServeHTTP / modules.Module.RunWorker": "the request worker reports its own errors to the client and the module error channel; ServeHTTP has nobody to return to", "api.start / api.updateAPIKeys": "updateAPIKeys logs invalid keys itself and always returns nil"}),
			c12R9, c12R10, func(c *Ctx, r *Report) { siblingRule(c, r, "C12-R11", sibAuth) }, c12R12, c12R13, c12R14},
	})
}

func c12R1(c *Ctx, r *Report) {
	const rule = "C12-R1"
	r.SetFloor(rule, 8)
	fn := c.Func("api.(*mainHandler).handle")
	if fn == nil {
		r.Undecided(rule, "api.(*mainHandler).handle", "anchor function missing")
		return
	}
	isReqField := func(v ssa.Value, field string) bool { return fieldLoadOf(v, "net/http.Request", field) }
	isURLField := func(v ssa.Value, field string) bool { return fieldLoadOf(v, "net/url.URL", field) }
	isHostname := func(v ssa.Value) bool { _, ok := isCallTo(v, "net/url.URL.Hostname"); return ok }
	eqGuard := func(name string, ok func(x, y ssa.Value) bool) Guard {
		return Guard{Name: name, Truthy: true, Match: func(b ssa.Value) bool {
			bo, isB := b.(*ssa.BinOp)
			if !isB || bo.Op != token.EQL {
				return false
			}
			return ok(bo.X, bo.Y) || ok(bo.Y, bo.X)
		}}
	}
	originGuards := []Guard{
		{Name: "no Origin header", Truthy: false, Match: func(b ssa.Value) bool {
			bo, ok := b.(*ssa.BinOp)
			if !ok || (bo.Op != token.NEQ && bo.Op != token.EQL) {
				return false
			}
			cst, isC := bo.Y.(*ssa.Const)
			if !isC || cst.Value == nil || cst.Value.Kind() != constant.String || constant.StringVal(cst.Value) != "" {
				return false
			}
			call, ok := isCallTo(bo.X, "net/http.Header.Get")
			if !ok {
				return false
			}
			k, isK := call.Call.Args[1].(*ssa.Const)
			return isK && k.Value != nil && constant.StringVal(k.Value) == "Origin" && bo.Op == token.NEQ
		}},
		eqGuard("Origin host == Host", func(x, y ssa.Value) bool { return isURLField(x, "Host") && isReqField(y, "Host") }),
		eqGuard("Origin hostname == Host", func(x, y ssa.Value) bool { return isHostname(x) && isReqField(y, "Host") }),
		eqGuard("Origin scheme is the browser extension scheme", func(x, y ssa.Value) bool {
			cst, ok := y.(*ssa.Const)
			return isURLField(x, "Scheme") && ok && cst.Value != nil && constant.StringVal(cst.Value) == "chrome-extension"
		}),
		{Name: "dev mode and allowed dev origin", Truthy: true, Match: func(b ssa.Value) bool {
			call, ok := isCallTo(b, "utils.StringInSlice")
			if !ok {
				return false
			}
			return vpath(call.Call.Args[0]) == "global:api.allowedDevCORSOrigins" && isHostname(call.Call.Args[1])
		}},
	}
	var auth, serve []ssa.Instruction
	eachInstr(fn, func(in ssa.Instruction) {
		if ci, ok := in.(*ssa.Call); ok {
			if calleeName(&ci.Call) == "api.authenticateRequest" {
				auth = append(auth, in)
			}
			if ci.Call.IsInvoke() && ci.Call.Method.Name() == "ServeHTTP" {
				serve = append(serve, in)
			}
		}
	})
	if len(auth) == 0 || len(serve) == 0 {
		r.Undecided(rule, fnKey(fn), "authenticateRequest / handler.ServeHTTP call not found")
		return
	}
	for i, in := range append(append([]ssa.Instruction{}, auth...), serve...) {
		cons := fmt.Sprintf("%s / %s #%d / origin decision", fnKey(fn), descInstr(in), i+1)
		p := ReachTargetAvoiding(fn, in, originGuards, nil)
		r.Check(p == nil, rule, cons, "reachable only without an Origin header or across one of the four documented origin acceptance tests",
			"the authenticator/handler is reachable for a cross-origin request that matches none of the documented acceptance tests (Origin host==Host, Origin hostname==Host, chrome-extension scheme, dev-mode allow list)", c.pathString(p)...)
	}
	// dev-mode exception really requires dev mode
	eachInstr(fn, func(in ssa.Instruction) {
		if call, ok := in.(*ssa.Call); ok && calleeName(&call.Call) == "utils.StringInSlice" && vpath(call.Call.Args[0]) == "global:api.allowedDevCORSOrigins" {
			c.RequireGuards(r, rule, fnKey(fn)+" / dev origin list consulted", fn, in, devModeGuard())
		}
	})
	for i, s := range serve {
		cons := fmt.Sprintf("%s / handler.ServeHTTP #%d", fnKey(fn), i+1)
		c.RequireGuards(r, rule, cons, fn, s,
			Guard{Name: "authenticateRequest(...) != nil", Truthy: true, Match: func(b ssa.Value) bool {
				_, ok := isCallTo(b, "api.authenticateRequest")
				return ok
			}},
			Guard{Name: "effective method ok", Truthy: true, Match: func(b ssa.Value) bool {
				ex, ok := b.(*ssa.Extract)
				if !ok || ex.Index != 2 {
					return false
				}
				_, isM := isCallTo(ex, "api.getEffectiveMethod")
				return isM
			}},
			Guard{Name: "route matched (MatchErr == nil)", Truthy: false, Match: func(b ssa.Value) bool {
				return fieldLoadOf(b, "github.com/gorilla/mux.RouteMatch", "MatchErr")
			}},
			Guard{Name: "handler != nil", Truthy: true, Match: func(b ssa.Value) bool {
				if b.Type().String() != "net/http.Handler" {
					return false
				}
				_, isPhi := b.(*ssa.Phi)
				return isPhi
			}},
		)
		// module readiness: not reachable across moduleIsReady()==false
		ready := callGuard("moduleIsReady()==true", true, "api.moduleIsReady")
		notMH := Guard{Name: "handler is no ModuleHandler", Truthy: false, Match: func(b ssa.Value) bool {
			ex, ok := b.(*ssa.Extract)
			if !ok || ex.Index != 1 {
				return false
			}
			ta, ok := ex.Tuple.(*ssa.TypeAssert)
			return ok && strings.HasSuffix(ta.AssertedType.String(), "api.ModuleHandler")
		}}
		p := ReachTargetAvoiding(fn, s, []Guard{ready, notMH}, nil)
		r.Check(p == nil, rule, cons+" / module ready", "the handler of a module-bound endpoint runs only when its module is ready", "a module-bound handler can run although its module is not ready", c.pathString(p)...)
	}
	// the handler that is authenticated is the one that is served, and the method class comes from getEffectiveMethod
	for _, a := range auth {
		call := a.(*ssa.Call)
		o := c.Origins(call.Call.Args[3])
		r.Check(onlyOrigins(o, "call:api.getEffectiveMethod#1"), rule, fnKey(fn)+" / method class passed to authenticateRequest", "readMethod is getEffectiveMethod's result", fmt.Sprintf("the method class comes from %v", o))
		for _, s := range serve {
			same := call.Call.Args[2] == s.(*ssa.Call).Call.Value
			r.Check(same, rule, fnKey(fn)+" / authenticated handler is the served handler", "the same handler value is authenticated and served", "a different handler is served than the one whose permissions were checked")
		}
	}
}

type permConsts struct{ NotFound, Dynamic, NotSupported, Anyone, User, Admin, Self int64 }

func (c *Ctx) permConsts(r *Report, rule string) (permConsts, bool) {
	k, ok := c.mustConsts(r, rule, "api", "NotFound", "Dynamic", "NotSupported", "PermitAnyone", "PermitUser", "PermitAdmin", "PermitSelf")
	if !ok {
		return permConsts{}, false
	}
	return permConsts{k["NotFound"], k["Dynamic"], k["NotSupported"], k["PermitAnyone"], k["PermitUser"], k["PermitAdmin"], k["PermitSelf"]}, true
}

func c12R2(c *Ctx, r *Report) {
	const rule = "C12-R2"
	r.SetFloor(rule, 2)
	fn := c.Func("api.authenticateRequest")
	if fn == nil {
		r.Undecided(rule, "api.authenticateRequest", "anchor function missing")
		return
	}
	pc, ok := c.permConsts(r, rule)
	if !ok {
		return
	}
	run := func(reqRead, reqWrite, tokRead, tokWrite int64, readMethod, handled, tokenNil bool) ([]string, bool) {
		it := &Interp{Fn: fn}
		it.Input = func(v ssa.Value) (AV, bool) {
			switch x := v.(type) {
			case *ssa.Parameter:
				if x.Name() == "readMethod" {
					return avBool(readMethod), true
				}
			case *ssa.Call:
				if x.Call.IsInvoke() {
					switch x.Call.Method.Name() {
					case "ReadPermission":
						return avInt(reqRead), true
					case "WritePermission":
						return avInt(reqWrite), true
					}
				}
			case *ssa.Extract:
				if call, ok := x.Tuple.(*ssa.Call); ok && calleeName(&call.Call) == "api.checkAuth" {
					if x.Index == 0 {
						if tokenNil {
							return AV{K: KNil}, true
						}
						return avSym("token"), true
					}
					return avBool(handled), true
				}
				if ta, ok := x.Tuple.(*ssa.TypeAssert); ok && x.Index == 1 && strings.HasSuffix(ta.AssertedType.String(), "AuthenticatedHandler") {
					return avBool(true), true
				}
			}
			return AV{}, false
		}
		it.LoadField = func(base AV, owner, field string) (AV, bool) {
			if base.S == "token" && owner == "api.AuthToken" {
				switch field {
				case "Read":
					return avInt(tokRead), true
				case "Write":
					return avInt(tokWrite), true
				}
			}
			return AV{}, false
		}
		it.Outcome = func(in ssa.Instruction, ev func(ssa.Value) AV) string {
			if ret, ok := in.(*ssa.Return); ok {
				a := ev(ret.Results[0])
				if a.K == KNil {
					return "denied"
				}
				return "granted"
			}
			return ""
		}
		if !it.Run() {
			return nil, false
		}
		return outcomeLabels(it.Outcomes), true
	}
	valid := func(p int64) bool { return p >= pc.Anyone && p <= pc.Self }
	// what the statement allows
	allowed := func(required, granted int64, handled bool) bool {
		if required == pc.Anyone {
			return true
		}
		if required == pc.Dynamic {
			required = pc.Anyone
		}
		if !valid(required) {
			return false
		}
		return !handled && valid(granted) && granted >= required
	}
	perms := []int64{-3, pc.NotFound, pc.Dynamic, pc.NotSupported, pc.Anyone, pc.User, pc.Admin, pc.Self, pc.Self + 1}
	var bad []string
	n := 0
	// phase 1: same permission on both sides of the class, all 9x9 values
	for _, req := range perms {
		for _, g := range perms {
			for bits := 0; bits < 8; bits++ {
				read, handled, tokenNil := bits&1 != 0, bits&2 != 0, bits&4 != 0
				ls, ok := run(req, req, g, g, read, handled, tokenNil)
				if !ok {
					r.Undecided(rule, fnKey(fn), "state budget exceeded")
					return
				}
				n++
				granted := g
				if tokenNil {
					granted = pc.Anyone
				}
				for _, l := range ls {
					if l == "granted" && !allowed(req, granted, handled) {
						bad = append(bad, fmt.Sprintf("required=%d granted=%d(tokenNil=%v) read=%v handled=%v -> handler may run", req, g, tokenNil, read, handled))
					}
				}
			}
		}
	}
	// phase 2: class selection with differing read/write sides
	small := []int64{pc.Anyone, pc.User, pc.Admin, pc.Self}
	for _, rr := range small {
		for _, rw := range small {
			for _, tr := range small {
				for _, tw := range small {
					for _, read := range []bool{false, true} {
						ls, ok := run(rr, rw, tr, tw, read, false, false)
						if !ok {
							r.Undecided(rule, fnKey(fn), "state budget exceeded")
							return
						}
						n++
						req, g := rw, tw
						if read {
							req, g = rr, tr
						}
						for _, l := range ls {
							if l == "granted" && !allowed(req, g, false) {
								bad = append(bad, fmt.Sprintf("requiredRead=%d requiredWrite=%d tokenRead=%d tokenWrite=%d readMethod=%v -> handler may run", rr, rw, tr, tw, read))
							}
						}
					}
				}
			}
		}
	}
	r.Check(len(bad) == 0, rule, fnKey(fn)+" / decision table", fmt.Sprintf("%d valuations: a token is returned only for Anyone-handlers or for a valid granted permission of the request's method class >= the valid required one", n),
		strings.Join(firstN(uniq(bad), 4), "; "))
	// the returned token copies the granted token
	eachInstr(fn, func(in ssa.Instruction) {
		ret, ok := in.(*ssa.Return)
		if !ok {
			return
		}
		al, ok := retVal(ret, 0).(*ssa.Alloc)
		if !ok {
			return
		}
		for _, st := range allocFieldStores(al) {
			fr, _ := fieldOfAddr(st.Addr)
			if _, isC := st.Val.(*ssa.Const); isC {
				v, _ := constInt(st.Val)
				r.Check(v == pc.Anyone, rule, fmt.Sprintf("%s / constant token %s", fnKey(fn), fr.Name), "constant tokens grant Anyone only", fmt.Sprintf("a constant token grants permission %d", v))
				continue
			}
			ok := fieldLoadOf(st.Val, "api.AuthToken", fr.Name)
			r.Check(ok, rule, fmt.Sprintf("%s / returned token %s", fnKey(fn), fr.Name), "the handler sees the granted "+fr.Name+" permission", "the token handed to the handler does not carry the granted "+fr.Name+" permission (fields crossed or elevated)")
		}
	})
}

func c12R3(c *Ctx, r *Report) {
	const rule = "C12-R3"
	r.SetFloor(rule, 12)
	pc, ok := c.permConsts(r, rule)
	if !ok {
		return
	}
	// ---- checkAuth: token literals
	if fn := c.Func("api.checkAuth"); fn == nil {
		r.Undecided(rule, "api.checkAuth", "anchor function missing")
	} else {
		dev := devModeGuard()
		bridge := Guard{Name: "RemoteAddr == bridge address", Truthy: true, Match: func(b ssa.Value) bool {
			bo, ok := b.(*ssa.BinOp)
			if !ok || bo.Op != token.EQL {
				return false
			}
			return (fieldLoadOf(bo.X, "net/http.Request", "RemoteAddr") && isBridgeAddr(bo.Y)) || (fieldLoadOf(bo.Y, "net/http.Request", "RemoteAddr") && isBridgeAddr(bo.X))
		}}
		eachInstr(fn, func(in ssa.Instruction) {
			al, ok := in.(*ssa.Alloc)
			if !ok || ownerType(al.Type()) != "api.AuthToken" {
				return
			}
			maxP := int64(-100)
			fromBridgeConst := false
			for _, st := range allocFieldStores(al) {
				if v, isC := constInt(st.Val); isC && v > maxP {
					maxP = v
				}
				if hasOrigin(c.Origins(st.Val), "field:global:api.dbCompatibilityPermission") {
					fromBridgeConst = true
				}
			}
			switch {
			case maxP == pc.Self:
				c.RequireGuards(r, rule, fnKey(fn)+" / token literal PermitSelf", fn, al, dev)
			case fromBridgeConst:
				c.RequireGuards(r, rule, fnKey(fn)+" / token literal bridge permission", fn, al, bridge)
			case maxP > pc.Anyone:
				r.Bad(rule, fmt.Sprintf("%s / token literal with permission %d", fnKey(fn), maxP), "checkAuth fabricates a privileged token outside dev mode / bridge", c.Pos(al.Pos()))
			}
		})
		// dev mode first? not required. The external authenticator is consulted only when set.
		eachInstr(fn, func(in ssa.Instruction) {
			if ci, ok := in.(*ssa.Call); ok && !ci.Call.IsInvoke() && vpath(ci.Call.Value) == "global:api.authFn" {
				c.RequireGuards(r, rule, fnKey(fn)+" / external authenticator call", fn, ci, aboolGuard("authFnSet.IsSet()", "global:api.authFnSet", "IsSet", true))
			}
		})
	}
	// ---- checkAPIKey
	if fn := c.Func("api.checkAPIKey"); fn == nil {
		r.Undecided(rule, "api.checkAPIKey", "anchor function missing")
	} else {
		hit := Guard{Name: "key found in apiKeys", Truthy: true, Match: func(b ssa.Value) bool {
			ex, ok := b.(*ssa.Extract)
			if !ok || ex.Index != 1 {
				return false
			}
			lk, ok := ex.Tuple.(*ssa.Lookup)
			return ok && vpath(lk.X) == "global:api.apiKeys"
		}}
		noExpiry := Guard{Name: "no expiry set", Truthy: false, Match: func(b ssa.Value) bool { return fieldLoadOf(b, "api.AuthToken", "ValidUntil") }}
		notExpired := Guard{Name: "not expired", Truthy: false, Match: func(b ssa.Value) bool {
			call, ok := isCallTo(b, "time.Time.After")
			if !ok {
				return false
			}
			_, isNow := isCallTo(call.Call.Args[0], "time.Now")
			return isNow
		}}
		k := 0
		held := LocksHeldAt(fn)
		eachInstr(fn, func(in ssa.Instruction) {
			ret, ok := in.(*ssa.Return)
			if !ok || isNilConst(retVal(ret, 0)) {
				return
			}
			k++
			cons := fmt.Sprintf("%s / return token #%d", fnKey(fn), k)
			c.RequireGuards(r, rule, cons, fn, ret, hit)
			p := ReachTargetAvoiding(fn, ret, []Guard{noExpiry, notExpired}, nil)
			r.Check(p == nil, rule, cons+" / expiry checked", "returned only if no expiry is set or it has not passed", "an API-key token can be returned without its expiry being checked", c.pathString(p)...)
			o := c.Origins(retVal(ret, 0))
			okEntry := len(o) > 0
			for _, l := range c.Leaves(retVal(ret, 0)) {
				if isNilConst(l) {
					continue
				}
				lk, isLk := l.(*ssa.Lookup)
				if ex, isEx := l.(*ssa.Extract); isEx {
					lk, isLk = ex.Tuple.(*ssa.Lookup)
				}
				if !isLk || vpath(lk.X) != "global:api.apiKeys" {
					okEntry = false
				}
			}
			r.Check(okEntry, rule, cons+" / token is the map entry", "the token returned is the apiKeys entry", fmt.Sprintf("the token returned comes from %v", o))
		})
		if k == 0 {
			r.Undecided(rule, fnKey(fn), "no token-returning exit")
		}
		eachInstr(fn, func(in ssa.Instruction) {
			if lk, ok := in.(*ssa.Lookup); ok && vpath(lk.X) == "global:api.apiKeys" {
				r.Check(held[in]["global:api.apiKeysLock"], rule, fnKey(fn)+" / key map read under lock", "apiKeys is read with apiKeysLock held", "apiKeys read without apiKeysLock")
			}
		})
	}
	// ---- checkSessionCookie
	if fn := c.Func("api.checkSessionCookie"); fn == nil {
		r.Undecided(rule, "api.checkSessionCookie", "anchor function missing")
	} else {
		hit := Guard{Name: "session found", Truthy: true, Match: func(b ssa.Value) bool {
			ex, ok := b.(*ssa.Extract)
			if !ok || ex.Index != 1 {
				return false
			}
			lk, ok := ex.Tuple.(*ssa.Lookup)
			return ok && vpath(lk.X) == "global:api.sessions"
		}}
		live := callGuard("!session.Expired()", false, "api.session.Expired")
		cookieOK := errNilGuard("cookie present", "net/http.Request.Cookie")
		k := 0
		eachInstr(fn, func(in ssa.Instruction) {
			ret, ok := in.(*ssa.Return)
			if !ok || isNilConst(retVal(ret, 0)) {
				return
			}
			k++
			c.RequireGuards(r, rule, fmt.Sprintf("%s / return token #%d", fnKey(fn), k), fn, ret, hit, live, cookieOK)
		})
		if k == 0 {
			r.Undecided(rule, fnKey(fn), "no token-returning exit")
		}
	}
	// ---- updateAPIKeys
	if fn := c.Func("api.updateAPIKeys"); fn == nil {
		r.Undecided(rule, "api.updateAPIKeys", "anchor function missing")
	} else {
		held := LocksHeldAt(fn)
		parseOK := func(name, callee string, idx int) Guard {
			return Guard{Name: name, Truthy: false, Match: func(b ssa.Value) bool {
				ex, ok := b.(*ssa.Extract)
				if !ok {
					return false
				}
				_, isC := isCallTo(ex, callee)
				return isC && types.Identical(ex.Type(), types.Universe.Lookup("error").Type())
			}}
		}
		k := 0
		eachInstr(fn, func(in ssa.Instruction) {
			mu, ok := in.(*ssa.MapUpdate)
			if !ok || vpath(mu.Map) != "global:api.apiKeys" {
				return
			}
			k++
			cons := fmt.Sprintf("%s / store key #%d", fnKey(fn), k)
			c.RequireGuards(r, rule, cons, fn, mu, parseOK("key URL parses", "net/url.Parse", 1))
			// both permission parses must have succeeded: no path avoiding err==nil of any parseAPIPermission call
			for i, pcall := range callsIn(fn, "api.parseAPIPermission") {
				pc2 := pcall.(*ssa.Call)
				g := Guard{Name: fmt.Sprintf("permission #%d parses", i+1), Truthy: false, Match: func(b ssa.Value) bool {
					ex, ok := b.(*ssa.Extract)
					return ok && ex.Tuple == ssa.Value(pc2) && ex.Index == 1
				}}
				c.RequireGuards(r, rule, cons, fn, mu, g)
			}
			// expiry: either no expiry string, or parsed and not yet passed
			noExp := Guard{Name: "no expires parameter", Truthy: true, Match: func(b ssa.Value) bool {
				bo, ok := b.(*ssa.BinOp)
				if !ok || bo.Op != token.EQL {
					return false
				}
				cst, isC := bo.Y.(*ssa.Const)
				return isC && cst.Value != nil && cst.Value.Kind() == constant.String && constant.StringVal(cst.Value) == "" && hasOrigin(c.Origins(bo.X), "call:net/url.Values.Get")
			}}
			noExp2 := noExp
			noExp2.Truthy = false
			noExp2.Match = func(b ssa.Value) bool {
				bo, ok := b.(*ssa.BinOp)
				if !ok || bo.Op != token.NEQ {
					return false
				}
				cst, isC := bo.Y.(*ssa.Const)
				return isC && cst.Value != nil && cst.Value.Kind() == constant.String && constant.StringVal(cst.Value) == "" && hasOrigin(c.Origins(bo.X), "call:net/url.Values.Get")
			}
			notPast := Guard{Name: "expiry not passed", Truthy: false, Match: func(b ssa.Value) bool {
				call, ok := isCallTo(b, "time.Time.After")
				if !ok {
					return false
				}
				_, isNow := isCallTo(call.Call.Args[0], "time.Now")
				return isNow
			}}
			// the same test spelled with len(): len(s) == 0 / len(s) != 0 / len(s) > 0 / 0 < len(s)
			isLenOfParam := func(v ssa.Value) bool {
				call, ok := v.(*ssa.Call)
				if !ok {
					return false
				}
				b, ok := call.Call.Value.(*ssa.Builtin)
				return ok && b.Name() == "len" && len(call.Call.Args) == 1 && hasOrigin(c.Origins(call.Call.Args[0]), "call:net/url.Values.Get")
			}
			isZero := func(v ssa.Value) bool { k, ok := constInt(v); return ok && k == 0 }
			lenEmpty := Guard{Name: "len(expires parameter) == 0", Truthy: true, Match: func(b ssa.Value) bool {
				bo, ok := b.(*ssa.BinOp)
				return ok && bo.Op == token.EQL && ((isLenOfParam(bo.X) && isZero(bo.Y)) || (isLenOfParam(bo.Y) && isZero(bo.X)))
			}}
			lenNonEmpty := Guard{Name: "not(len(expires parameter) > 0)", Truthy: false, Match: func(b ssa.Value) bool {
				bo, ok := b.(*ssa.BinOp)
				if !ok {
					return false
				}
				switch bo.Op {
				case token.NEQ:
					return (isLenOfParam(bo.X) && isZero(bo.Y)) || (isLenOfParam(bo.Y) && isZero(bo.X))
				case token.GTR:
					return isLenOfParam(bo.X) && isZero(bo.Y)
				case token.LSS:
					return isLenOfParam(bo.Y) && isZero(bo.X)
				}
				return false
			}}
			p := ReachTargetAvoiding(fn, mu, []Guard{noExp, noExp2, lenEmpty, lenNonEmpty, notPast}, nil)
			r.Check(p == nil, rule, cons+" / expired keys are not stored", "a key with an expiry is stored only if the expiry has not passed", "a key can be stored without its expiry being compared with the current time", c.pathString(p)...)
			r.Check(held[in]["global:api.apiKeysLock"], rule, cons+" / under key lock", "stored with apiKeysLock held", "apiKeys written without apiKeysLock")
			// stored permissions come from the parsed values
			if al, isAl := c.singleAlloc(mu.Value); isAl {
				for _, st := range allocFieldStores(al) {
					fr, _ := fieldOfAddr(st.Addr)
					if fr.Name != "Read" && fr.Name != "Write" {
						continue
					}
					if v, isC := constInt(st.Val); isC {
						r.Check(v <= pc.Anyone, rule, cons+" / default "+fr.Name, "default permission is Anyone", "a key gets a privileged default permission")
						continue
					}
					r.Check(onlyOrigins(c.Origins(st.Val), "call:api.parseAPIPermission#0"), rule, cons+" / "+fr.Name+" from configuration", "permission parsed from the key", "permission does not come from parseAPIPermission")
				}
			}
		})
		if k == 0 {
			r.Bad(rule, fnKey(fn)+" / store key", "no API key is ever stored")
		}
		// the key map is cleared on every update: every return is preceded by the range over apiKeys that deletes
		isClear := func(in ssa.Instruction) bool {
			rg, ok := in.(*ssa.Range)
			return ok && vpath(rg.X) == "global:api.apiKeys"
		}
		hasDelete := funcHas(fn, 0, func(in ssa.Instruction) bool {
			ci, ok := in.(*ssa.Call)
			return ok && calleeName(&ci.Call) == "builtin.delete" && vpath(ci.Call.Args[0]) == "global:api.apiKeys"
		})
		kk := 0
		eachInstr(fn, func(in ssa.Instruction) {
			ret, ok := in.(*ssa.Return)
			if !ok {
				return
			}
			kk++
			r.Check(hasDelete && MustPrecede(fn, isClear, ret), rule, fmt.Sprintf("%s / exit #%d after clearing the key map", fnKey(fn), kk),
				"the previous keys are removed on every path before the function returns", "an update can return without clearing the previous keys: a revoked API key keeps working", c.Pos(ret.Pos()))
		})
	}
	// ---- parseAPIPermission never yields more than Admin
	if fn := c.Func("api.parseAPIPermission"); fn == nil {
		r.Undecided(rule, "api.parseAPIPermission", "anchor function missing")
	} else {
		okAll := true
		eachInstr(fn, func(in ssa.Instruction) {
			if ret, ok := in.(*ssa.Return); ok {
				v, isC := constInt(retVal(ret, 0))
				if !isC || v < pc.Anyone || v > pc.Admin {
					okAll = false
				}
			}
		})
		r.Check(okAll, rule, fnKey(fn)+" / result range", "configured keys get Anyone, User or Admin only", "parseAPIPermission can yield a permission outside [Anyone, Admin] (e.g. Self)")
	}
}

func (c *Ctx) singleAlloc(v ssa.Value) (*ssa.Alloc, bool) {
	ls := c.Leaves(v)
	if len(ls) != 1 {
		return nil, false
	}
	al, ok := ls[0].(*ssa.Alloc)
	return al, ok
}

func allPrefix(s []string, p string) bool {
	for _, x := range s {
		if !strings.HasPrefix(x, p) {
			return false
		}
	}
	return true
}

func isBridgeAddr(v ssa.Value) bool {
	if cst, ok := v.(*ssa.Const); ok && cst.Value != nil && cst.Value.Kind() == constant.String {
		return true // the named constant endpointBridgeRemoteAddress is folded
	}
	return vpath(v) == "global:api.endpointBridgeRemoteAddress"
}

// lenAtLeast: on the given edge of "len(x) <op> c" is len(x) >= k implied?
func lenImplies(op token.Token, cst int64, lenOnLeft bool, edgeTrue bool, k int64) bool {
	if !lenOnLeft {
		// c op len  ==  len op' c
		switch op {
		case token.LSS:
			op = token.GTR
		case token.LEQ:
			op = token.GEQ
		case token.GTR:
			op = token.LSS
		case token.GEQ:
			op = token.LEQ
		}
	}
	if !edgeTrue {
		switch op {
		case token.LSS:
			op = token.GEQ
		case token.LEQ:
			op = token.GTR
		case token.GTR:
			op = token.LEQ
		case token.GEQ:
			op = token.LSS
		case token.EQL:
			op = token.NEQ
		case token.NEQ:
			op = token.EQL
		}
	}
	switch op {
	case token.GTR:
		return cst+1 >= k
	case token.GEQ:
		return cst >= k
	case token.EQL:
		return cst >= k
	}
	return false
}

// lenGuards returns guards that are passed exactly on edges implying len(x) >= k.
func lenGuards(x ssa.Value, k int64) []Guard {
	isLenOf := func(v ssa.Value) bool {
		call, ok := v.(*ssa.Call)
		if !ok || calleeName(&call.Call) != "builtin.len" {
			return false
		}
		a := call.Call.Args[0]
		return a == x || (vpath(a) != "" && vpath(a) == vpath(x))
	}
	mk := func(truthy bool) Guard {
		return Guard{Name: fmt.Sprintf("len >= %d", k), Truthy: truthy, Match: func(b ssa.Value) bool {
			bo, ok := b.(*ssa.BinOp)
			if !ok {
				return false
			}
			var cst int64
			var left bool
			if isLenOf(bo.X) {
				v, isC := constInt(bo.Y)
				if !isC {
					return false
				}
				cst, left = v, true
			} else if isLenOf(bo.Y) {
				v, isC := constInt(bo.X)
				if !isC {
					return false
				}
				cst, left = v, false
			} else {
				return false
			}
			return lenImplies(bo.Op, cst, left, truthy, k)
		}}
	}
	return []Guard{mk(true), mk(false)}
}

func c12R4(c *Ctx, r *Report) {
	const rule = "C12-R4"
	r.SetFloor(rule, 1)
	n := 0
	ord := map[string]int{}
	for _, fn := range c.FuncsIn("api") {
		eachInstr(fn, func(in ssa.Instruction) {
			sl, ok := in.(*ssa.Slice)
			if !ok {
				return
			}
			bt, ok := sl.X.Type().Underlying().(*types.Basic)
			if !ok || bt.Info()&types.IsString == 0 {
				return
			}
			need := int64(0)
			if sl.High != nil {
				if v, isC := constInt(sl.High); isC {
					need = v
				}
			}
			if sl.Low != nil {
				if v, isC := constInt(sl.Low); isC && v > need {
					need = v
				}
			}
			if need <= 0 {
				return
			}
			n++
			cons := ordinal(ord, fmt.Sprintf("%s / slice [%s:%s] of %s", fnKey(fn), valStr(sl.Low), valStr(sl.High), strings.Join(c.Origins(sl.X), "+")))
			p := ReachTargetAvoiding(fn, sl, lenGuards(sl.X, need), nil)
			// other accepted idioms: HasPrefix(x, const) with len(const) >= need
			if p != nil {
				hp := Guard{Name: "HasPrefix with a long enough constant", Truthy: true, Match: func(b ssa.Value) bool {
					call, ok := isCallTo(b, "strings.HasPrefix")
					if !ok {
						return false
					}
					if !(call.Call.Args[0] == sl.X || (vpath(sl.X) != "" && vpath(call.Call.Args[0]) == vpath(sl.X))) {
						return false
					}
					cst, isC := call.Call.Args[1].(*ssa.Const)
					return isC && cst.Value != nil && cst.Value.Kind() == constant.String && int64(len(constant.StringVal(cst.Value))) >= need
				}}
				p = ReachTargetAvoiding(fn, sl, append(lenGuards(sl.X, need), hp), nil)
			}
			r.Check(p == nil, rule, cons, fmt.Sprintf("dominated by a test implying len >= %d", need),
				fmt.Sprintf("a string derived from the request is sliced with constant bound %d without a dominating length test: a shorter input panics inside the request", need), c.pathString(p)...)
		})
	}
	if n == 0 {
		r.Undecided(rule, "instance-floor", "no constant-bound string slice found in package api")
	}
}

func valStr(v ssa.Value) string {
	if v == nil {
		return ""
	}
	if k, ok := constInt(v); ok {
		return fmt.Sprint(k)
	}
	return v.Name()
}

func c12R5(c *Ctx, r *Report) {
	const rule = "C12-R5"
	r.SetFloor(rule, 4)
	if fn := c.Func("api.getEffectiveMethod"); fn == nil {
		r.Undecided(rule, "api.getEffectiveMethod", "anchor function missing")
	} else {
		var bad []string
		want := map[string]string{"GET": "read", "HEAD": "read", "POST": "write", "PUT": "write", "DELETE": "write", "PATCH": "refused", "": "refused", "OPTIONS": "refused", "CONNECT": "refused", "TRACE": "refused"}
		n := 0
		for _, method := range []string{"GET", "HEAD", "POST", "PUT", "DELETE", "PATCH", "OPTIONS", "CONNECT", "TRACE"} {
			for _, pre := range []string{"", "GET", "HEAD", "POST", "PUT", "DELETE", "PATCH", "OPTIONS"} {
				it := &Interp{Fn: fn}
				it.Input = func(v ssa.Value) (AV, bool) {
					if fieldLoadOf(v, "net/http.Request", "Method") {
						return avStr(method), true
					}
					if call, ok := v.(*ssa.Call); ok && calleeName(&call.Call) == "net/http.Header.Get" {
						return avStr(pre), true
					}
					return AV{}, false
				}
				it.Outcome = func(in ssa.Instruction, ev func(ssa.Value) AV) string {
					if ret, ok := in.(*ssa.Return); ok {
						okv, _ := ev(ret.Results[2]).Bool()
						rd, _ := ev(ret.Results[1]).Bool()
						if ev(ret.Results[2]).K != KConst || ev(ret.Results[1]).K != KConst {
							return "unknown"
						}
						switch {
						case !okv:
							return "refused"
						case rd:
							return "read"
						default:
							return "write"
						}
					}
					return ""
				}
				it.Run()
				n++
				ls := strings.Join(outcomeLabels(it.Outcomes), "|")
				eff := method
				if method == "OPTIONS" {
					eff = pre
				}
				w := want[eff]
				if w == "" {
					w = "refused"
				}
				if ls != w {
					bad = append(bad, fmt.Sprintf("method=%s preflight=%q -> %s (expected %s)", method, pre, ls, w))
				}
			}
		}
		r.Check(len(bad) == 0, rule, fnKey(fn)+" / method class table", fmt.Sprintf("%d valuations: GET/HEAD read, POST/PUT/DELETE write, everything else refused, OPTIONS judged by its preflight method", n), strings.Join(firstN(uniq(bad), 4), "; "))
	}
	for _, t := range []struct{ fn, field string }{{"api.(*endpointHandler).ReadPermission", "Read"}, {"api.(*endpointHandler).WritePermission", "Write"}} {
		fn := c.Func(t.fn)
		if fn == nil {
			r.Undecided(rule, t.fn, "anchor function missing")
			continue
		}
		nf, _ := c.constVal("api", "NotFound")
		ok := true
		detail := ""
		eachInstr(fn, func(in ssa.Instruction) {
			ret, isRet := in.(*ssa.Return)
			if !isRet {
				return
			}
			v := retVal(ret, 0)
			if k, isC := constInt(v); isC {
				if k != nf {
					ok, detail = false, fmt.Sprintf("returns constant %d", k)
				}
				return
			}
			if !fieldLoadOf(v, "api.Endpoint", t.field) {
				ok, detail = false, fmt.Sprintf("returns %v", c.Origins(v))
			}
		})
		r.Check(ok, rule, t.fn+" / permission lookup", "returns the endpoint's "+t.field+" permission, NotFound without endpoint", t.fn+" "+detail+" instead of Endpoint."+t.field)
	}
	// Endpoint.check range
	if fn := c.Func("api.(*Endpoint).check"); fn != nil {
		pc, ok := c.permConsts(r, rule)
		if ok {
			var bad []string
			for _, p := range []int64{-3, pc.NotFound, pc.Dynamic, pc.NotSupported, pc.Anyone, pc.Self, pc.Self + 1} {
				it := &Interp{Fn: fn}
				it.Input = func(v ssa.Value) (AV, bool) {
					if fieldLoadOf(v, "api.Endpoint", "Read") {
						return avInt(p), true
					}
					if fieldLoadOf(v, "api.Endpoint", "Write") {
						return avInt(pc.Anyone), true
					}
					return AV{}, false
				}
				it.Outcome = func(in ssa.Instruction, ev func(ssa.Value) AV) string {
					if ret, ok := in.(*ssa.Return); ok {
						if ev(ret.Results[0]).K == KNil {
							return "accepted"
						}
						return "rejected"
					}
					return ""
				}
				it.Run()
				_, acc := it.Outcomes["accepted"]
				if acc && (p < pc.Dynamic || p > pc.Self) {
					bad = append(bad, fmt.Sprintf("read permission %d accepted", p))
				}
			}
			r.Check(len(bad) == 0, rule, fnKey(fn)+" / permission range", "endpoints with permissions outside [Dynamic, Self] are rejected at registration", strings.Join(bad, "; "))
		}
	}
}

// devModeGuard: the condition is a call of the dev-mode config getter held in
// the package variable api.devMode.
func devModeGuard() Guard {
	return Guard{Name: "devMode()==true", Truthy: true, Match: func(b ssa.Value) bool {
		call, ok := b.(*ssa.Call)
		if !ok || call.Call.IsInvoke() {
			return false
		}
		return vpath(call.Call.Value) == "global:api.devMode"
	}}
}

// freshPerExecution: v is a heap allocation that is executed again between any
// two executions of `use` (so two executions never see the same object).
func freshPerExecution(fn *ssa.Function, use ssa.Instruction, v ssa.Value) (bool, string) {
	al, ok := v.(*ssa.Alloc)
	if !ok {
		return false, "not a local allocation: " + leafDesc(v)
	}
	isUse := func(in ssa.Instruction) bool { return in == use }
	isAlloc := func(in ssa.Instruction) bool { return in == ssa.Instruction(al) }
	if ReachInstr(fn, use, isUse, isAlloc) != nil {
		return false, "the store can execute twice without the variable " + al.Comment + " being allocated in between (declared outside the loop)"
	}
	return true, ""
}

func c12R6(c *Ctx, r *Report) {
	const rule = "C12-R6"
	r.SetFloor(rule, 2)
	fn := c.Func("api.updateAPIKeys")
	if fn == nil {
		r.Undecided(rule, "api.updateAPIKeys", "anchor function missing")
		return
	}
	ord := map[string]int{}
	eachInstr(fn, func(in ssa.Instruction) {
		var val ssa.Value
		var what string
		switch x := in.(type) {
		case *ssa.Store:
			fr, ok := fieldOfAddr(x.Addr)
			if !ok || fr.Owner != "api.AuthToken" {
				return
			}
			if _, isPtr := x.Val.Type().Underlying().(*types.Pointer); !isPtr {
				return
			}
			val, what = x.Val, "AuthToken."+fr.Name
		case *ssa.MapUpdate:
			if !strings.HasSuffix(vpath(x.Map), "api.apiKeys") {
				return
			}
			val, what = x.Value, "apiKeys entry"
		default:
			return
		}
		if isNilConst(val) {
			return
		}
		cons := ordinal(ord, "api.updateAPIKeys / pointer stored to "+what)
		okAll, why := true, ""
		for _, l := range c.Leaves(val) {
			if isNilConst(l) {
				continue
			}
			if ok, w := freshPerExecution(fn, in, l); !ok {
				okAll, why = false, w
			}
		}
		r.Check(okAll, rule, cons, "allocated anew for every key", "API keys share one object: "+why+"; every key inherits the value written for the last one (an expired key stays valid)", c.Pos(in.Pos()))
	})
}

func c12R9(c *Ctx, r *Report) {
	const rule = "C12-R9"
	r.SetFloor(rule, 3)
	notExpired := callGuard("sess.Expired()==false", false, "api.session.Expired")
	n := 0
	for _, site := range c.CallSites("api.session.Refresh") {
		if fnKey(site.Fn) == "api.createSession" {
			r.Trivial(rule, fnKey(site.Fn)+" / session refreshed", "initialises the lifetime of a session it has just created")
			continue
		}
		n++
		c.RequireGuards(r, rule, fnKey(site.Fn)+" / session refreshed", site.Fn, site.Instr, notExpired)
	}
	if n == 0 {
		r.Undecided(rule, "api.session.Refresh", "no refresh site found")
	}
	// orientation of the expiry test itself: expired == now is after the deadline
	if fn := c.Func("api.(*session).Expired"); fn == nil {
		r.Undecided(rule, "api.(*session).Expired", "anchor function missing")
	} else {
		eachInstr(fn, func(in ssa.Instruction) {
			ret, ok := in.(*ssa.Return)
			if !ok || ret.Block() == fn.Recover {
				return
			}
			v := retVal(ret, 0)
			okForm := false
			if call, isCall := v.(*ssa.Call); isCall {
				_, a0Now := isCallTo(call.Call.Args[0], "time.Now")
				a1Deadline := len(call.Call.Args) > 1 && fieldLoadOf(call.Call.Args[1], "api.session", "validUntil")
				_, a1Now := func() (*ssa.Call, bool) {
					if len(call.Call.Args) > 1 {
						return isCallTo(call.Call.Args[1], "time.Now")
					}
					return nil, false
				}()
				a0Deadline := fieldLoadOf(call.Call.Args[0], "api.session", "validUntil")
				switch calleeName(&call.Call) {
				case "time.Time.After":
					okForm = a0Now && a1Deadline
				case "time.Time.Before":
					okForm = a0Deadline && a1Now
				}
			}
			r.Check(okForm, rule, "api.(*session).Expired / expired means now is after the deadline", "returns time.Now().After(validUntil) (or validUntil.Before(time.Now()))",
				"the expiry test is not 'now after validUntil': live sessions are refused or expired ones accepted", c.Pos(ret.Pos()))
		})
	}
	if fn := c.Func("api.(*session).Refresh"); fn != nil {
		eachInstr(fn, func(in ssa.Instruction) {
			st, ok := in.(*ssa.Store)
			if !ok {
				return
			}
			if fr, ok := fieldOfAddr(st.Addr); !ok || fr.Name != "validUntil" {
				return
			}
			okForm := false
			if call, isCall := st.Val.(*ssa.Call); isCall && calleeName(&call.Call) == "time.Time.Add" {
				_, fromNow := isCallTo(call.Call.Args[0], "time.Now")
				_, isParam := call.Call.Args[1].(*ssa.Parameter)
				okForm = fromNow && isParam
			}
			r.Check(okForm, rule, "api.(*session).Refresh / new deadline is now + ttl", "validUntil = time.Now().Add(ttl)", "the refreshed deadline is not now + ttl", c.Pos(st.Pos()))
		})
	}
}
