package main

import (
	"fmt"
	"go/constant"
	"go/token"
	"sort"
	"strings"

	"golang.org/x/tools/go/ssa"
)

func init() {
	register(&propDef{
		ID: "C08",
		Explanation: "Decides structural necessary conditions of the stored-record format: " +
			"(R1) decoder guards: every slice of the input in NewRawWrapper starts at an offset that is the sum of byte counts reported by the decoders it called, taken only on their success edges; the block reader's unsigned length bound (shared with C10-R4); GenCodeUnmarshal's length guard covers its highest constant index; " +
			"(R2) the fixed-width meta codec allocates and guards exactly the bytes it indexes; " +
			"(R3) writer and reader layout tables agree: (field, byte index, shift) triples of GenCodeMarshal and GenCodeUnmarshal, the flag bytes, the section sequence of Base.MarshalRecord and Wrapper.MarshalRecord, the version constant written and accepted, and the 'no data for deleted records' predicate on writer and reader side (decision tables over Deleted in {<0, 0, >0}); " +
			"(R5) varint.GetNextBlock, which extracts the meta block, bounds the decoded length in the unsigned domain with the prefix accounted for (same rule as C10-R4); (R4) the data-format identifier is written with the codec the reader uses (varint.Pack8 / Unpack8). " +
			"(R6) every constant-bound index/slice in the repo functions statically reachable from the record parsers is dominated by a length test implying the bound. " +
			"(R7) in every Record.Marshal implementation a deleted record yields no data before any other rejection can apply: each error exit other than the missing-meta one is reachable only past the Deleted test (sibling agreement Base/Wrapper; shared with C13-R7). " +
			"(R8) error discipline over package database/record: " + repoErrText + ". " +
			"(R9) ParseKey splits a key at its first colon only: the database-key part is everything after it (colons inside the key are data), so the key of a parsed record equals the key it was stored under. " +
			"(R10) sibling agreement (A14): the paired functions consist of the same operations - calls with their constant arguments, comparisons (canonical under negation and operand order), field reads/writes, channel operations, returns, each with the number of conditions it depends on - once the instance-specific names are mapped onto each other; logging is ignored, named differences are listed in the table: Base.MarshalRecord ~ Wrapper.MarshalRecord (typed and wrapped records get the same storage envelope). " +
			"(R11) the format-identifier codec reports the bytes it used (= C10-R1, Unpack8). " +
			"NOT decided: round-trip equality for all records, totality of the third-party codecs.",
		Rules: []ruleFn{c08R1, c08R2, c08R3, c08R4, func(c *Ctx, r *Report) { blockReaderRule(c, r, "C08-R5") }, c08R6, func(c *Ctx, r *Report) { deletedFirstRule(c, r, "C08-R7") },
			repoErrRuleFor("C08-R8", 6, func(c *Ctx, fn *ssa.Function) bool { return short(fn.Pkg.Pkg.Path()) == "database/record" }, map[string]string{}),
			c08R9, func(c *Ctx, r *Report) { siblingRule(c, r, "C08-R10", sibRecord) }, borrowRule(c10R1, "C10-R1", "C08-R11", 2, nil)},
	})
}

func c08R1(c *Ctx, r *Report) {
	const rule = "C08-R1"
	r.SetFloor(rule, 4)
	fn := c.Func("database/record.NewRawWrapper")
	if fn == nil {
		r.Undecided(rule, "database/record.NewRawWrapper", "anchor function missing")
		return
	}
	data := fn.Params[2]
	decoders := []string{"formats/varint.Unpack8", "formats/varint.GetNextBlock", "formats/varint.Unpack16", "formats/varint.Unpack32", "formats/varint.Unpack64"}
	// the input and everything re-sliced from it
	var derived func(v ssa.Value, d int) bool
	derived = func(v ssa.Value, d int) bool {
		if d > 6 {
			return false
		}
		switch x := v.(type) {
		case *ssa.Parameter:
			return x == data
		case *ssa.Slice:
			return derived(x.X, d+1)
		case *ssa.Phi:
			for _, e := range x.Edges {
				if !derived(e, d+1) {
					return false
				}
			}
			return len(x.Edges) > 0
		}
		return false
	}
	k := 0
	eachInstr(fn, func(in ssa.Instruction) {
		sl, ok := in.(*ssa.Slice)
		if !ok || !derived(sl.X, 0) {
			return
		}
		k++
		cons := fmt.Sprintf("%s / data[offset:] #%d", fnKey(fn), k)
		if sl.High != nil {
			r.Bad(rule, cons, "the input is sliced with an upper bound that does not come from a decoder", c.Pos(sl.Pos()))
			return
		}
		if sl.Low == nil {
			r.Trivial(rule, cons, "whole input")
			return
		}
		// low = sum of decoder counts
		var counts []*ssa.Extract
		okSum := true
		var walk func(v ssa.Value, d int)
		walk = func(v ssa.Value, d int) {
			if d > 10 {
				okSum = false
				return
			}
			switch x := v.(type) {
			case *ssa.BinOp:
				if x.Op != token.ADD {
					okSum = false
					return
				}
				walk(x.X, d+1)
				walk(x.Y, d+1)
			case *ssa.Phi:
				for _, e := range x.Edges {
					walk(e, d+1)
				}
			case *ssa.Extract:
				if _, ok := isCallTo(x, decoders...); ok && x.Index == 1 {
					counts = append(counts, x)
				} else {
					okSum = false
				}
			default:
				okSum = false
			}
		}
		walk(sl.Low, 0)
		r.Check(okSum && len(counts) > 0, rule, cons+" / offset provenance", fmt.Sprintf("offset is the sum of %d decoder byte counts", len(counts)),
			"the offset used to slice the input is not (only) the sum of byte counts reported by the decoders: the parser can read beyond or before what was decoded", c.Pos(sl.Pos()))
		for ci, ex := range counts {
			call := ex.Tuple.(*ssa.Call)
			g := Guard{Name: calleeName(&call.Call) + " error == nil", Truthy: false, Match: func(b ssa.Value) bool {
				e2, ok := b.(*ssa.Extract)
				return ok && e2.Tuple == ssa.Value(call) && e2.Index == 2
			}}
			// the count may only be added to the offset (or used) on the decoder's success edge
			for _, ref := range *ex.Referrers() {
				if _, isDbg := ref.(*ssa.DebugRef); isDbg {
					continue
				}
				c.RequireGuards(r, rule, fmt.Sprintf("%s / count #%d used", cons, ci+1), fn, ref, g)
			}
		}
		// each decoder was applied to the input at the running offset (data or data[offset:])
	})
	if k < 2 {
		r.Undecided(rule, fnKey(fn), fmt.Sprintf("expected >= 2 slices of the input, found %d", k))
	}
	// version accepted
	verOK := false
	eachInstr(fn, func(in ssa.Instruction) {
		if bo, ok := in.(*ssa.BinOp); ok && (bo.Op == token.NEQ || bo.Op == token.EQL) {
			if ex, ok := bo.X.(*ssa.Extract); ok && ex.Index == 0 {
				if _, isU := isCallTo(ex, "formats/varint.Unpack8"); isU {
					if v, isC := constInt(bo.Y); isC && v == 1 {
						verOK = true
					}
				}
			}
		}
	})
	r.Check(verOK, rule, fnKey(fn)+" / version check", "record version 1 is required", "the record version is not compared with 1")
	// GenCodeUnmarshal guard (const index vs guard const)
	c08GenCodeGuard(c, r, rule)
}

// constReturn evaluates a niladic-ish repo function to a constant result.
func (c *Ctx) constReturn(fn *ssa.Function) (int64, bool) {
	if fn == nil || fn.Blocks == nil {
		return 0, false
	}
	var vals []int64
	ok := true
	it := &Interp{Fn: fn, MaxStates: 1000}
	it.Outcome = func(in ssa.Instruction, ev func(ssa.Value) AV) string {
		if ret, isRet := in.(*ssa.Return); isRet && len(ret.Results) > 0 {
			if v, isC := constInt(ret.Results[0]); isC {
				vals = append(vals, v)
			} else if bo, isB := ret.Results[0].(*ssa.BinOp); isB && bo.Op == token.ADD {
				x, xc := constInt(bo.X)
				y, yc := constInt(bo.Y)
				if xc && yc {
					vals = append(vals, x+y)
				} else {
					ok = false
				}
			} else {
				ok = false
			}
		}
		return ""
	}
	it.Run()
	if !ok || len(vals) == 0 {
		return 0, false
	}
	for _, v := range vals {
		if v != vals[0] {
			return 0, false
		}
	}
	return vals[0], true
}

func c08GenCodeGuard(c *Ctx, r *Report, rule string) {
	fn := c.Func("database/record.(*Meta).GenCodeUnmarshal")
	if fn == nil {
		r.Undecided(rule, "database/record.(*Meta).GenCodeUnmarshal", "anchor function missing")
		return
	}
	buf := fn.Params[1]
	maxIdx := int64(-1)
	eachInstr(fn, func(in ssa.Instruction) {
		if ia, ok := in.(*ssa.IndexAddr); ok && ia.X == ssa.Value(buf) {
			if k, isC := constInt(ia.Index); isC && k > maxIdx {
				maxIdx = k
			}
		}
	})
	size, okS := c.constReturn(c.Func("database/record.(*Meta).GenCodeSize"))
	// guard: len(buf) < GenCodeSize() -> error
	g := Guard{Name: "len(buf) >= GenCodeSize()", Truthy: false, Match: func(b ssa.Value) bool {
		bo, ok := b.(*ssa.BinOp)
		if !ok || bo.Op != token.LSS {
			return false
		}
		call, ok := bo.X.(*ssa.Call)
		if !ok || calleeName(&call.Call) != "builtin.len" || call.Call.Args[0] != ssa.Value(buf) {
			return false
		}
		if _, ok := isCallTo(bo.Y, "database/record.Meta.GenCodeSize"); ok {
			return true
		}
		if v, isC := constInt(bo.Y); isC && v > maxIdx {
			return true
		}
		return false
	}}
	first := firstInstrOfKind(fn, func(in ssa.Instruction) bool {
		ia, ok := in.(*ssa.IndexAddr)
		return ok && ia.X == ssa.Value(buf)
	})
	c.RequireGuards(r, rule, fnKey(fn)+" / indexed reads", fn, first, g)
	r.Check(okS && size > maxIdx, rule, fnKey(fn)+" / guard covers highest index", fmt.Sprintf("GenCodeSize()=%d > highest index %d", size, maxIdx),
		fmt.Sprintf("the length guard admits %d bytes but index %d is read", size, maxIdx))
}

type layoutTriple struct {
	Field string
	Index int64
	Shift int64
}

func (t layoutTriple) String() string { return fmt.Sprintf("%s@%d>>%d", t.Field, t.Index, t.Shift) }

func c08R2(c *Ctx, r *Report) {
	const rule = "C08-R2"
	r.SetFloor(rule, 2)
	size, okS := c.constReturn(c.Func("database/record.(*Meta).GenCodeSize"))
	if !okS {
		r.Undecided(rule, "database/record.(*Meta).GenCodeSize", "size is not a constant")
		return
	}
	fn := c.Func("database/record.(*Meta).GenCodeMarshal")
	if fn == nil {
		r.Undecided(rule, "database/record.(*Meta).GenCodeMarshal", "anchor function missing")
		return
	}
	maxIdx := int64(-1)
	eachInstr(fn, func(in ssa.Instruction) {
		if ia, ok := in.(*ssa.IndexAddr); ok {
			if k, isC := constInt(ia.Index); isC && k > maxIdx {
				maxIdx = k
			}
		}
	})
	r.Check(size == maxIdx+1, rule, fnKey(fn)+" / size equals bytes written", fmt.Sprintf("GenCodeSize()=%d, highest index written %d", size, maxIdx),
		fmt.Sprintf("GenCodeSize()=%d but the highest index written is %d: the encoder writes beyond its buffer or leaves trailing garbage", size, maxIdx))
	// buffer has that size: make([]byte, size) or buf[:size] with cap check
	okBuf := false
	eachInstr(fn, func(in ssa.Instruction) {
		if ms, ok := in.(*ssa.MakeSlice); ok {
			if _, isSz := isCallTo(ms.Len, "database/record.Meta.GenCodeSize"); isSz {
				okBuf = true
			}
			if v, isC := constInt(ms.Len); isC && v >= size {
				okBuf = true
			}
		}
	})
	r.Check(okBuf, rule, fnKey(fn)+" / buffer allocation", "allocates GenCodeSize() bytes", "the buffer is not allocated with GenCodeSize() bytes")
	// returned length
	eachInstr(fn, func(in ssa.Instruction) {
		if ret, ok := in.(*ssa.Return); ok {
			if sl, ok := retVal(ret, 0).(*ssa.Slice); ok && sl.High != nil {
				hv := int64(-1)
				if v, isC := constInt(sl.High); isC {
					hv = v
				} else if bo, isB := sl.High.(*ssa.BinOp); isB && bo.Op == token.ADD {
					if v, isC := constInt(bo.Y); isC {
						hv = v
					}
				}
				r.Check(hv == size, rule, fnKey(fn)+" / returned length", "returns exactly GenCodeSize() bytes", fmt.Sprintf("returns buf[:%d], GenCodeSize() is %d", hv, size))
			}
		}
	})
}

func c08R3(c *Ctx, r *Report) {
	const rule = "C08-R3"
	r.SetFloor(rule, 5)
	mf := c.Func("database/record.(*Meta).GenCodeMarshal")
	uf := c.Func("database/record.(*Meta).GenCodeUnmarshal")
	if mf == nil || uf == nil {
		r.Undecided(rule, "database/record.(*Meta).GenCodeMarshal/Unmarshal", "anchor function missing")
		return
	}
	// writer triples: store IndexAddr(buf,k) = convert(m.F >> s)
	wt := map[string]bool{}
	wflags := map[int64]string{}
	eachInstr(mf, func(in ssa.Instruction) {
		st, ok := in.(*ssa.Store)
		if !ok {
			return
		}
		ia, ok := st.Addr.(*ssa.IndexAddr)
		if !ok {
			return
		}
		k, isC := constInt(ia.Index)
		if !isC {
			return
		}
		v := unwrapConv(st.Val)
		if bo, ok := v.(*ssa.BinOp); ok && bo.Op == token.SHR {
			if u, ok := bo.X.(*ssa.UnOp); ok {
				if fr, ok := fieldOfAddr(u.X); ok {
					s, _ := constInt(bo.Y)
					wt[layoutTriple{fr.Name, k, s}.String()] = true
				}
			}
			return
		}
		if cv, isConst := constInt(st.Val); isConst && cv == 1 {
			// flag byte: which field guards it?
			for _, f := range []string{"secret", "cronjewel"} {
				g := fieldLoadGuard(f, "database/record.Meta", f, true)
				if ReachAvoiding(mf, nil, st.Block(), []Guard{g}) == nil {
					wflags[k] = f
				}
			}
		}
	})
	// reader triples: store m.F = OR chain of convert(buf[k]) << s
	rt := map[string]bool{}
	rflags := map[int64]string{}
	eachInstr(uf, func(in ssa.Instruction) {
		st, ok := in.(*ssa.Store)
		if !ok {
			return
		}
		fr, ok := fieldOfAddr(st.Addr)
		if !ok || fr.Owner != "database/record.Meta" {
			return
		}
		var walk func(v ssa.Value, d int)
		walk = func(v ssa.Value, d int) {
			if d > 20 {
				return
			}
			switch x := v.(type) {
			case *ssa.BinOp:
				switch x.Op {
				case token.OR:
					walk(x.X, d+1)
					walk(x.Y, d+1)
				case token.SHL:
					s, _ := constInt(x.Y)
					if u, ok := unwrapConv(x.X).(*ssa.UnOp); ok {
						if ia, ok := u.X.(*ssa.IndexAddr); ok {
							if k, isC := constInt(ia.Index); isC {
								rt[layoutTriple{fr.Name, k, s}.String()] = true
							}
						}
					}
				case token.EQL:
					if u, ok := x.X.(*ssa.UnOp); ok {
						if ia, ok := u.X.(*ssa.IndexAddr); ok {
							if k, isC := constInt(ia.Index); isC {
								if one, isOne := constInt(x.Y); isOne && one == 1 {
									rflags[k] = fr.Name
								}
							}
						}
					}
				}
			}
		}
		walk(st.Val, 0)
	})
	var diff []string
	for t := range wt {
		if !rt[t] {
			diff = append(diff, "written but not read: "+t)
		}
	}
	for t := range rt {
		if !wt[t] {
			diff = append(diff, "read but not written: "+t)
		}
	}
	sort.Strings(diff)
	r.Check(len(diff) == 0 && len(wt) == 32, rule, "database/record.Meta GenCode / byte layout", fmt.Sprintf("%d (field, byte, shift) triples agree between writer and reader", len(wt)),
		fmt.Sprintf("writer and reader disagree on the meta layout (%d writer / %d reader triples): %s", len(wt), len(rt), strings.Join(firstN(diff, 4), "; ")))
	okFlags := len(wflags) == 2 && len(rflags) == 2
	for k, f := range wflags {
		if rflags[k] != f {
			okFlags = false
		}
	}
	r.Check(okFlags, rule, "database/record.Meta GenCode / flag bytes", fmt.Sprintf("flag bytes agree: %v", wflags), fmt.Sprintf("flag bytes differ: writer %v, reader %v (a secret record can be read back as non-secret)", wflags, rflags))

	// MarshalRecord sequences
	seq := func(fn *ssa.Function) []string {
		var out []string
		eachInstr(fn, func(in ssa.Instruction) {
			ci, ok := in.(*ssa.Call)
			if !ok {
				return
			}
			n := calleeName(&ci.Call)
			switch {
			case n == "container.New":
				out = append(out, "version")
			case n == "formats/dsd.Dump":
				f, _ := constInt(ci.Call.Args[1])
				out = append(out, fmt.Sprintf("dump(format=%d)", f))
			case n == "container.Container.AppendAsBlock":
				out = append(out, "append-as-block")
			case n == "container.Container.Append":
				out = append(out, "append")
			case strings.HasSuffix(n, ".Marshal"):
				out = append(out, "marshal-data")
			case n == "container.Container.CompileData":
				out = append(out, "compile")
			}
		})
		return out
	}
	b := c.Func("database/record.(*Base).MarshalRecord")
	w := c.Func("database/record.(*Wrapper).MarshalRecord")
	if b == nil || w == nil {
		r.Undecided(rule, "database/record MarshalRecord", "anchor function missing")
	} else {
		// the layout is the order of the container operations; where the sections come from is checked by provenance
		// (when the version container is created relative to producing the sections does not matter)
		layout := func(fn *ssa.Function) string {
			var out []string
			for _, s := range seq(fn) {
				switch s {
				case "version", "append-as-block", "append", "compile":
					out = append(out, s)
				}
			}
			return strings.Join(out, ",")
		}
		sources := func(fn *ssa.Function) string {
			var out []string
			for _, ci := range callsIn(fn, "container.Container.AppendAsBlock") {
				args := ci.Common().Args
				ok := false
				for _, l := range c.Leaves(args[len(args)-1]) {
					if ex, isEx := l.(*ssa.Extract); isEx {
						l = ex.Tuple
					}
					if call, isCall := l.(*ssa.Call); isCall && calleeName(&call.Call) == "formats/dsd.Dump" {
						if f, isC := constInt(call.Call.Args[1]); isC && f == mustConst(c, "formats/dsd", "GenCode") {
							ok = true
						}
					}
				}
				out = append(out, fmt.Sprintf("block<-gencode-dump:%v", ok))
			}
			for _, ci := range callsIn(fn, "container.Container.Append") {
				args := ci.Common().Args
				ok := false
				for _, l := range c.Leaves(args[len(args)-1]) {
					if ex, isEx := l.(*ssa.Extract); isEx {
						l = ex.Tuple
					}
					if call, isCall := l.(*ssa.Call); isCall && strings.HasSuffix(calleeName(&call.Call), ".Marshal") {
						ok = true
					}
				}
				out = append(out, fmt.Sprintf("data<-marshal:%v", ok))
			}
			return strings.Join(out, ",")
		}
		sb, sw := layout(b)+" | "+sources(b), layout(w)+" | "+sources(w)
		want := "version,append-as-block,append,compile | block<-gencode-dump:true,data<-marshal:true"
		r.Check(sb == want && sw == want, rule, "database/record MarshalRecord / section sequence", "both writers emit version, length-prefixed GenCode meta, data", fmt.Sprintf("Base: [%s] Wrapper: [%s] expected [%s]", sb, sw, want))
		// version constant written == accepted (1)
		for _, fn := range []*ssa.Function{b, w} {
			ok := false
			eachInstr(fn, func(in ssa.Instruction) {
				st, isSt := in.(*ssa.Store)
				if !isSt {
					return
				}
				ia, isIA := st.Addr.(*ssa.IndexAddr)
				if !isIA {
					return
				}
				al, isAl := ia.X.(*ssa.Alloc)
				if !isAl || !strings.Contains(al.Type().String(), "[1]byte") {
					return
				}
				if v, isC := constInt(st.Val); isC && v == 1 {
					ok = true
				}
			})
			r.Check(ok, rule, fnKey(fn)+" / version byte", "writes version 1 (the one NewRawWrapper accepts)", "does not write version byte 1")
		}
	}
	// deleted predicate agreement
	table := map[string]map[int64]string{}
	eval := func(name string, fn *ssa.Function, outcome func(in ssa.Instruction, ev func(ssa.Value) AV) string) {
		if fn == nil {
			r.Undecided(rule, name, "anchor function missing")
			return
		}
		table[name] = map[int64]string{}
		for _, d := range []int64{-5, 0, 5} {
			it := &Interp{Fn: fn, Outcome: outcome, Inline: func(f *ssa.Function) bool { return fnKey(f) == "database/record.(*Meta).IsDeleted" }}
			it.Input = func(v ssa.Value) (AV, bool) {
				if fieldLoadOf(v, "database/record.Meta", "Deleted") {
					return avInt(d), true
				}
				if call, ok := v.(*ssa.Call); ok && strings.HasSuffix(calleeName(&call.Call), ".Meta") {
					return avSym("meta"), true
				}
				return AV{}, false
			}
			it.Run()
			table[name][d] = strings.Join(outcomeLabels(it.Outcomes), "|")
		}
	}
	writerOutcome := func(in ssa.Instruction, ev func(ssa.Value) AV) string {
		if ci, ok := in.(*ssa.Call); ok {
			switch calleeName(&ci.Call) {
			case "formats/dsd.Dump", "formats/varint.Pack8":
				return "data"
			}
		}
		return ""
	}
	eval("writer Base.Marshal", c.Func("database/record.(*Base).Marshal"), writerOutcome)
	eval("writer Wrapper.Marshal", c.Func("database/record.(*Wrapper).Marshal"), writerOutcome)
	// reader: the second Unpack8 call (format) in NewRawWrapper
	if nr := c.Func("database/record.NewRawWrapper"); nr != nil {
		var fmtCall ssa.Instruction
		cnt := 0
		eachInstr(nr, func(in ssa.Instruction) {
			if ci, ok := in.(*ssa.Call); ok && calleeName(&ci.Call) == "formats/varint.Unpack8" {
				cnt++
				if cnt == 2 {
					fmtCall = in
				}
			}
		})
		eval("reader NewRawWrapper", nr, func(in ssa.Instruction, _ func(ssa.Value) AV) string {
			if in == fmtCall {
				return "data"
			}
			return ""
		})
	}
	var disagree []string
	ref := table["reader NewRawWrapper"]
	for name, t := range table {
		for _, d := range []int64{-5, 0, 5} {
			if ref != nil && (t[d] == "data") != (ref[d] == "data") {
				disagree = append(disagree, fmt.Sprintf("Deleted=%d: %s %s a data section, the reader %s one", d, name, yn(t[d] == "data", "writes", "writes no"), yn(ref[d] == "data", "expects", "expects no")))
			}
		}
	}
	sort.Strings(disagree)
	r.Tables[rule+" deleted predicate"] = table
	r.Check(len(table) == 3 && len(disagree) == 0, rule, "database/record / 'no data for deleted' predicate", "writers and reader agree for Deleted in {<0, 0, >0}: data section exactly when Deleted <= 0",
		strings.Join(disagree, "; "))
	// and the predicate itself is 'Deleted > 0'
	if ref != nil {
		okPred := ref[-5] == "data" && ref[0] == "data" && ref[5] != "data"
		r.Check(okPred, rule, "database/record.NewRawWrapper / deleted means Deleted > 0", "a data section is expected for Deleted <= 0 only", fmt.Sprintf("reader expects data for: %v", ref))
	}
}

func yn(b bool, y, n string) string {
	if b {
		return y
	}
	return n
}

func mustConst(c *Ctx, pkg, name string) int64 {
	v, _ := c.constVal(pkg, name)
	return v
}

func c08R4(c *Ctx, r *Report) {
	const rule = "C08-R4"
	r.SetFloor(rule, 2)
	fn := c.Func("database/record.(*Wrapper).Marshal")
	if fn == nil {
		r.Undecided(rule, "database/record.(*Wrapper).Marshal", "anchor function missing")
		return
	}
	ok := false
	for _, ci := range callsIn(fn, "formats/varint.Pack8") {
		if fieldLoadOf(ci.Common().Args[0], "database/record.Wrapper", "Format") {
			ok = true
		}
	}
	r.Check(ok, rule, fnKey(fn)+" / format identifier encoding", "the format identifier is written with varint.Pack8 (read back with varint.Unpack8)",
		"the format identifier is not written with varint.Pack8 although the reader decodes it with varint.Unpack8: identifiers >= 128 do not round-trip")
	// no raw byte store of w.Format
	raw := false
	eachInstr(fn, func(in ssa.Instruction) {
		if st, isSt := in.(*ssa.Store); isSt {
			if _, isIA := st.Addr.(*ssa.IndexAddr); isIA && fieldLoadOf(st.Val, "database/record.Wrapper", "Format") {
				raw = true
			}
		}
	})
	r.Check(!raw, rule, fnKey(fn)+" / no raw format byte", "the identifier is not stored as a raw byte", "the format identifier is stored as one raw byte")
	// Base.Marshal goes through dsd.Dump (which packs the identifier)
	if b := c.Func("database/record.(*Base).Marshal"); b != nil {
		r.Check(len(callsIn(b, "formats/dsd.Dump")) > 0, rule, fnKey(b)+" / format identifier encoding", "typed records are dumped with dsd.Dump", "typed records are not serialised with dsd.Dump")
	}
	// Unwrap loads with the wrapper's own format and data
	if u := c.Func("database/record.Unwrap"); u != nil {
		ok := false
		for _, ci := range callsIn(u, "formats/dsd.LoadAsFormat") {
			a := ci.Common().Args
			if fieldLoadOf(a[0], "database/record.Wrapper", "Data") && fieldLoadOf(a[1], "database/record.Wrapper", "Format") {
				ok = true
			}
		}
		r.Check(ok, rule, fnKey(u)+" / loads data with its own format", "LoadAsFormat(wrapper.Data, wrapper.Format, r)", "Unwrap does not load the wrapper's data with the wrapper's format")
	}
}

func c08R6(c *Ctx, r *Report) {
	const rule = "C08-R6"
	r.SetFloor(rule, 1)
	boundsRule(c, r, rule, "parsing an arbitrary byte string as a stored record",
		"database/record.NewRawWrapper", "database/record.NewWrapper", "database/record.Unwrap")
}

// deletedFirstRule: Marshal of a deleted record is (nil, nil), whatever else is wrong with it.
func deletedFirstRule(c *Ctx, r *Report, rule string) {
	r.SetFloor(rule, 2)
	notDeleted := Guard{Name: "not(Meta().Deleted > 0)", Truthy: false, Match: func(b ssa.Value) bool {
		bo, ok := b.(*ssa.BinOp)
		if !ok || (bo.Op != token.GTR && bo.Op != token.NEQ) {
			return false
		}
		v, isC := constInt(bo.Y)
		return isC && v == 0 && fieldLoadOf(bo.X, "database/record.Meta", "Deleted")
	}}
	noMeta := Guard{Name: "Meta() == nil", Truthy: false, Match: func(b ssa.Value) bool {
		_, ok := isCallTo(b, "database/record.Base.Meta")
		return ok
	}}
	n := 0
	for _, fn := range c.FuncsIn("database/record") {
		if fn.Name() != "Marshal" || fn.Signature.Recv() == nil || fn.Blocks == nil {
			continue
		}
		n++
		k := 0
		hasDeletedExit := false
		eachInstr(fn, func(in ssa.Instruction) {
			ret, ok := in.(*ssa.Return)
			if !ok {
				return
			}
			if isNilConst(retVal(ret, 0)) && isNilConst(retVal(ret, 1)) {
				hasDeletedExit = true
				return
			}
			if isNilConst(retVal(ret, 1)) {
				return
			}
			k++
			p := ReachTargetAvoiding(fn, ret, []Guard{notDeleted, noMeta}, nil)
			r.Check(p == nil, rule, fmt.Sprintf("%s / error exit #%d only for records that are not deleted", fnKey(fn), k),
				"reachable only past the Deleted test (or for a record without meta)",
				"a deleted record can be rejected with an error before the Deleted test: it must marshal to no data (the API's del notification and the stored form rely on it)", append([]string{c.Pos(ret.Pos())}, c.pathString(p)...)...)
		})
		r.Check(hasDeletedExit, rule, fnKey(fn)+" / deleted records marshal to (nil, nil)", "has the no-data exit", "no (nil, nil) exit: deleted records are serialized with data")
	}
	if n < 2 {
		r.Undecided(rule, "Record.Marshal implementations", fmt.Sprintf("found %d implementations, expected Base and Wrapper", n))
	}
}

// c08R9: the key part is the whole remainder after the first ':'.
func c08R9(c *Ctx, r *Report) {
	const rule = "C08-R9"
	r.SetFloor(rule, 1)
	fn := c.Func("database/record.ParseKey")
	if fn == nil {
		r.Undecided(rule, "database/record.ParseKey", "anchor function missing")
		return
	}
	isColon := func(v ssa.Value) bool {
		cst, ok := v.(*ssa.Const)
		return ok && cst.Value != nil && cst.Value.Kind() == constant.String && constant.StringVal(cst.Value) == ":"
	}
	// 1 whole remainder, 0 lossy, -1 unknown
	var whole func(v ssa.Value, depth int) int
	whole = func(v ssa.Value, depth int) int {
		if depth > 6 {
			return -1
		}
		switch x := v.(type) {
		case *ssa.Const:
			return 1 // "" when there is no colon
		case *ssa.Phi:
			res := 1
			for _, e := range x.Edges {
				if k := whole(e, depth+1); k < res {
					res = k
				}
			}
			return res
		case *ssa.Call:
			if calleeName(&x.Call) == "strings.Join" && isColon(x.Call.Args[1]) {
				// Join(splitted[1:], ":") restores what Split/SplitN took apart
				if sl, ok := x.Call.Args[0].(*ssa.Slice); ok {
					if lo, isC := constInt(sl.Low); isC && lo == 1 && sl.High == nil {
						if sp, ok := sl.X.(*ssa.Call); ok && (calleeName(&sp.Call) == "strings.Split" || calleeName(&sp.Call) == "strings.SplitN") && isColon(sp.Call.Args[1]) {
							return 1
						}
					}
				}
				return -1
			}
		case *ssa.Extract:
			if call, ok := x.Tuple.(*ssa.Call); ok && calleeName(&call.Call) == "strings.Cut" && isColon(call.Call.Args[1]) && x.Index == 1 {
				return 1
			}
		case *ssa.UnOp:
			if ia, ok := x.X.(*ssa.IndexAddr); ok {
				if sp, ok := ia.X.(*ssa.Call); ok && isColon(sp.Call.Args[1]) {
					idx, isC := constInt(ia.Index)
					switch calleeName(&sp.Call) {
					case "strings.SplitN":
						if n, isN := constInt(sp.Call.Args[2]); isN && n == 2 && isC && idx == 1 {
							return 1
						}
						return 0
					case "strings.Split":
						return 0 // one element of an unbounded split drops everything after the next colon
					}
				}
			}
		case *ssa.Slice:
			if x.High == nil && x.Low != nil {
				return 1 // key[i+1:]
			}
		}
		return -1
	}
	n := 0
	eachInstr(fn, func(in ssa.Instruction) {
		ret, ok := in.(*ssa.Return)
		if !ok || len(ret.Results) < 2 {
			return
		}
		n++
		cons := fmt.Sprintf("database/record.ParseKey / key part of return #%d is the whole remainder", n)
		switch whole(retVal(ret, 1), 0) {
		case 1:
			r.OK(rule, cons, "everything after the first colon (or empty)")
		case 0:
			r.Bad(rule, cons, "the key part is a single element of a split on ':' - everything after a second colon is dropped, so a record stored under 'db:a:b' is parsed back as 'db:a'", c.Pos(ret.Pos()))
		default:
			r.Undecided(rule, cons, "derivation of the key part not understood: "+vpath(retVal(ret, 1)))
		}
	})
}
