package main

import (
	"fmt"
	"strings"

	"golang.org/x/tools/go/ssa"
)

// c09R10: the format a loader reports is the serialization format the data was
// actually decoded with - never the identifier of the compression wrapper.
func c09R10(c *Ctx, r *Report) {
	const rule = "C09-R10"
	r.SetFloor(rule, 4)
	for _, name := range []string{"formats/dsd.Load", "formats/dsd.DecompressAndLoad"} {
		fn := c.Func(name)
		if fn == nil {
			r.Undecided(rule, name, "anchor function missing")
			continue
		}
		k := 0
		eachInstr(fn, func(in ssa.Instruction) {
			ret, ok := in.(*ssa.Return)
			if !ok || len(ret.Results) != 2 {
				return
			}
			k++
			cons := fmt.Sprintf("%s / return #%d reports the decoded format", name, k)
			errV := retVal(ret, 1)
			for _, l := range c.Leaves(retVal(ret, 0)) {
				l = unwrapConv(l)
				if v, isC := constInt(l); isC && v == 0 {
					r.OK(rule, cons, "no format (0) on an error return")
					continue
				}
				if ex, ok := l.(*ssa.Extract); ok && ex.Index == 0 {
					if _, ok := isCallTo(ex, "formats/dsd.DecompressAndLoad", "formats/dsd.Load"); ok {
						r.OK(rule, cons, "the inner loader's format is passed on")
						continue
					}
				}
				// decoded with exactly this format in the same return
				if call, ok := isCallTo(errV, "formats/dsd.LoadAsFormat"); ok && len(call.Call.Args) >= 2 && unwrapConv(call.Call.Args[1]) == l {
					r.OK(rule, cons, "the reported format is the one handed to LoadAsFormat, whose error is returned alongside")
					continue
				}
				// or validated as a serialization format on every path
				g := Guard{Name: "ValidateSerializationFormat(format) ok", Truthy: true, Match: func(b ssa.Value) bool {
					ex, ok := b.(*ssa.Extract)
					if !ok || ex.Index != 1 {
						return false
					}
					call, ok := isCallTo(ex, "formats/dsd.ValidateSerializationFormat")
					return ok && unwrapConv(call.Call.Args[0]) == l
				}}
				p := ReachTargetAvoiding(fn, ret, []Guard{g}, nil)
				r.Check(p == nil, rule, cons, "the reported format was validated as a serialization format on every path to this return",
					"the loader reports a format identifier that was neither decoded with nor validated as a serialization format (for compressed data this is the compression identifier, not the format of the content)", c.Pos(ret.Pos()))
			}
		})
	}
}

// c10R6: PrependLength always prepends: every result is Pack64(len(data)) followed by the data.
func c10R6(c *Ctx, r *Report) {
	const rule = "C10-R6"
	r.SetFloor(rule, 1)
	fn := c.Func("formats/varint.PrependLength")
	if fn == nil {
		r.Undecided(rule, "formats/varint.PrependLength", "anchor function missing")
		return
	}
	k := 0
	eachInstr(fn, func(in ssa.Instruction) {
		ret, ok := in.(*ssa.Return)
		if !ok || len(ret.Results) != 1 {
			return
		}
		k++
		cons := fmt.Sprintf("formats/varint.PrependLength / return #%d", k)
		v := retVal(ret, 0)
		o := c.Origins(v)
		var hasPrefix func(v ssa.Value, d int) bool
		hasPrefix = func(v ssa.Value, d int) bool {
			if d > 8 {
				return false
			}
			switch x := v.(type) {
			case *ssa.Call:
				switch calleeName(&x.Call) {
				case "formats/varint.Pack64":
					return true
				case "builtin.append":
					return hasPrefix(x.Call.Args[0], d+1) // the head of the result
				}
			case *ssa.Slice:
				if x.Low == nil {
					return hasPrefix(x.X, d+1)
				}
			case *ssa.Phi:
				for _, e := range x.Edges {
					if !hasPrefix(e, d+1) {
						return false
					}
				}
				return len(x.Edges) > 0
			}
			return false
		}
		okShape := hasPrefix(v, 0)
		detail := "the result is built from " + strings.Join(o, ",") + " only"
		r.Check(okShape, rule, cons, "the result starts with Pack64(...) on every path (the prefix value itself is C10-R4)", detail+": a result without the length prefix (e.g. for empty input) is not a block GetNextBlock can read back", c.Pos(ret.Pos()))
	})
}

// c12R10: resetting the authentication deletes the session named by the
// presented cookie whenever there is one - no other condition decides.
func c12R10(c *Ctx, r *Report) {
	const rule = "C12-R10"
	r.SetFloor(rule, 1)
	fn := c.Func("api.authReset")
	if fn == nil {
		r.Undecided(rule, "api.authReset", "anchor function missing")
		return
	}
	noCookie := Guard{Name: "Cookie() error != nil", Truthy: true, Match: func(b ssa.Value) bool {
		ex, ok := b.(*ssa.Extract)
		if !ok || ex.Index != 1 {
			return false
		}
		_, isC := isCallTo(ex, "net/http.Request.Cookie")
		return isC
	}}
	p := ReachFromAvoiding(fn, nil, isExit, []Guard{noCookie}, isCallInstrTo("api.deleteSession"))
	r.Check(p == nil, rule, "api.authReset / the presented session is deleted", "every exit has either found no session cookie or deleted the session",
		"authReset can finish without deleting the session although the request carries a session cookie (another condition decides): the cookie stays a valid credential after the reset", c.pathString(p)...)
	for _, ci := range callsIn(fn, "api.deleteSession") {
		o := c.Origins(ci.Common().Args[0])
		r.Check(strings.Contains(strings.Join(o, " "), "net/http.Request.Cookie"), rule, "api.authReset / deletes the session the cookie names", "the deleted key is the cookie's value", fmt.Sprintf("the deleted session key comes from %v, not from the presented cookie", o), c.Pos(ci.Pos()))
	}
}

// c13R10: where the interface hands out no controller (nil) the error is never
// ErrNotFound - Put/PutNew/... continue on ErrNotFound ("record does not exist
// yet") and use the controller.
func c13R10(c *Ctx, r *Report) {
	const rule = "C13-R10"
	r.SetFloor(rule, 3)
	isNotFoundLoad := func(in ssa.Instruction) bool {
		u, ok := in.(*ssa.UnOp)
		if !ok || u.Op.String() != "*" {
			return false
		}
		g, ok := u.X.(*ssa.Global)
		return ok && g.Name() == "ErrNotFound" && g.Pkg != nil && short(g.Pkg.Pkg.Path()) == "database"
	}
	// (a) getController and everything it statically reaches never mention ErrNotFound
	gc := c.Func("database.getController")
	if gc == nil {
		r.Undecided(rule, "database.getController", "anchor function missing")
		return
	}
	n := 0
	for _, f := range c.staticallyReachable(gc) {
		if short(f.Pkg.Pkg.Path()) != "database" {
			continue
		}
		n++
		var bad ssa.Instruction
		eachInstr(f, func(in ssa.Instruction) {
			if bad == nil && isNotFoundLoad(in) {
				bad = in
			}
		})
		r.Check(bad == nil, rule, fnKey(f)+" / controller lookup never yields ErrNotFound", "no use of ErrNotFound on the controller-lookup path",
			"the controller lookup can fail with (an error wrapping) ErrNotFound: Interface.Put/PutNew treat that as 'record does not exist yet', go on with the nil controller and crash the request goroutine", posOf(c, bad))
	}
	// (b) getMeta/getRecord: a nil controller is returned only together with the lookup's error
	for _, name := range []string{"database.(*Interface).getMeta", "database.(*Interface).getRecord"} {
		fn := c.Func(name)
		if fn == nil {
			r.Undecided(rule, name, "anchor function missing")
			continue
		}
		k := 0
		eachInstr(fn, func(in ssa.Instruction) {
			ret, ok := in.(*ssa.Return)
			if !ok || len(ret.Results) != 3 || !isNilConst(retVal(ret, 1)) {
				return
			}
			k++
			okErr := true
			var from []string
			for _, l := range c.Leaves(retVal(ret, 2)) {
				d := leafDesc(l)
				from = append(from, d)
				if ex, isEx := l.(*ssa.Extract); isEx {
					if _, isGC := isCallTo(ex, "database.getController"); isGC {
						continue
					}
				}
				if call, isCall := l.(*ssa.Call); isCall {
					if cn := calleeName(&call.Call); cn == "errors.New" {
						continue
					}
				}
				okErr = false
			}
			r.Check(okErr, rule, fmt.Sprintf("%s / return #%d without controller", name, k), "a nil controller comes only with getController's own error",
				fmt.Sprintf("a nil controller is returned with an error from %v, which may be ErrNotFound: callers that continue on ErrNotFound dereference the nil controller", from), c.Pos(ret.Pos()))
		})
	}
	if n == 0 {
		r.Bad(rule, "database.getController", "nothing analysed")
	}
}

// c15R6: every clearance request waits for the priority's own maximum delay:
// the caller's value when positive, otherwise the default of that priority.
func c15R6(c *Ctx, r *Report) {
	const rule = "C15-R6"
	r.SetFloor(rule, 4)
	for _, t := range []struct{ callee, def string }{{"modules.getMediumPriorityClearance", "defaultMediumPriorityMaxDelay"}, {"modules.getLowPriorityClearance", "defaultLowPriorityMaxDelay"}} {
		want, ok := c.constVal("modules", t.def)
		if !ok {
			r.Undecided(rule, "modules."+t.def, "constant missing")
			continue
		}
		for _, s := range c.CallSites(t.callee) {
			cons := fnKey(s.Fn) + " / delay handed to " + strings.TrimPrefix(t.callee, "modules.")
			arg := s.Instr.(ssa.CallInstruction).Common().Args[0]
			var param *ssa.Parameter
			switch x := arg.(type) {
			case *ssa.Parameter:
				r.Bad(rule, cons, "the caller's maxDelay is passed on unchanged: for maxDelay <= 0 (documented as 'use the default') the request times out at once and the microtask starts without clearance, above the concurrency limit", c.Pos(s.Instr.Pos()))
				continue
			case *ssa.Phi:
				good := true
				why := ""
				for i, e := range x.Edges {
					if p, isP := e.(*ssa.Parameter); isP {
						param = p
						pos := cmpGuards("maxDelay > 0", func(v ssa.Value) bool { return v == ssa.Value(p) }, func(v int64) bool { return v > 0 }, 0)
						if !phiEdgeGuardedAny(s.Fn, x, i, pos) {
							good, why = false, "the caller's value is used although it was not tested positive"
						}
						continue
					}
					if v, isC := constInt(e); isC {
						if v != want {
							good, why = false, fmt.Sprintf("the default used is %d ns, the priority's default %s is %d ns", v, t.def, want)
						}
						continue
					}
					good, why = false, "unrecognised delay "+e.String()
				}
				_ = param
				r.Check(good, rule, cons, "the caller's positive delay or "+t.def, why+": the microtask is admitted without clearance earlier than its priority's maximum delay allows", c.Pos(s.Instr.Pos()))
			default:
				r.Undecided(rule, cons, "unrecognised delay argument "+arg.String())
			}
		}
	}
}

// c16R11: PeekContainer (and through it GetAsContainer) yields no container
// only for a negative size or when the container holds too little - a request
// for zero bytes is served with an empty container like on a byte queue.
func c16R11(c *Ctx, r *Report) {
	const rule = "C16-R11"
	r.SetFloor(rule, 2)
	fn := c.Func("container.(*Container).PeekContainer")
	if fn == nil {
		r.Undecided(rule, "container.(*Container).PeekContainer", "anchor function missing")
		return
	}
	isN := func(v ssa.Value) bool {
		switch x := v.(type) {
		case *ssa.Parameter:
			return x.Name() == "n"
		case *ssa.Phi:
			return x.Comment == "n"
		}
		return false
	}
	nonZero := cmpGuards("n != 0", isN, func(x int64) bool { return x != 0 }, 0)
	k := 0
	eachInstr(fn, func(in ssa.Instruction) {
		ret, ok := in.(*ssa.Return)
		if !ok || len(ret.Results) != 1 {
			return
		}
		nilable := false
		for _, l := range c.Leaves(retVal(ret, 0)) {
			if isNilConst(l) {
				nilable = true
			}
		}
		if !nilable {
			return
		}
		k++
		c.RequireAny(r, rule, fmt.Sprintf("container.(*Container).PeekContainer / nil result #%d", k), fn, ret, "size tested non-zero (negative, or bytes missing)", nonZero)
	})
	if k == 0 {
		r.Bad(rule, "container.(*Container).PeekContainer / nil results", "no failure result found (anchor lost)")
	}
}

func c17R6(c *Ctx, r *Report) {
	isEOF := Guard{Name: "errors.Is(err, io.EOF)", Truthy: true, Match: func(b ssa.Value) bool {
		call, ok := isCallTo(b, "errors.Is")
		if !ok || len(call.Call.Args) != 2 {
			return false
		}
		u, ok := call.Call.Args[1].(*ssa.UnOp)
		if !ok {
			return false
		}
		g, ok := u.X.(*ssa.Global)
		return ok && g.Name() == "EOF" && g.Pkg != nil && g.Pkg.Pkg.Path() == "io"
	}}
	retryOK := errNilGuard("the retried write succeeded", "database/storage/fstree.writeFile")
	errSwallowRule(c, r, "C17-R6", 30, func(fn *ssa.Function) bool { return fn.Pkg != nil && inScope(short(fn.Pkg.Pkg.Path())) },
		func(fn *ssa.Function, e ssa.Value) bool {
			for _, l := range c.Leaves(e) {
				if ex, ok := l.(*ssa.Extract); ok {
					l = ex.Tuple
				}
				if call, ok := l.(*ssa.Call); ok {
					if _, is := c17ContentStep(calleeName(&call.Call)); is {
						return true
					}
				}
			}
			return false
		},
		map[string]swallowSpec{
			"updater.copyFromZipArchive / error call:io.CopyN#1":                            {Guards: []Guard{isEOF}, Reason: "CopyN reports io.EOF when the member is shorter than the size limit; that is the regular end of the member"},
			"database/storage/fstree.(*FSTree).Put / error call:database/storage/fstree.writeFile#0": {Guards: []Guard{retryOK}, Reason: "a first failure is retried after creating the directory; success only if the retry succeeded"},
			"updater.(*ResourceRegistry).fetchFile / error call:os.Chmod#0":                    {Reason: "permissions are adjusted after the complete file was published; failure leaves complete content (logged)"},
			"updater.(*ResourceRegistry).fetchFile / error call:os.WriteFile#0":                {Reason: "detached signature file, tolerated unless the download policy requires signatures (C17-R2 lists it as not atomically written)"},
			"updater.(*ResourceRegistry).fetchMissingSig / error call:os.WriteFile#0":          {Reason: "detached signature file, tolerated unless the download policy requires signatures"},
			"updater.(*ResourceRegistry).downloadIndex / error call:os.WriteFile#0":            {Reason: "the index copy on disk is a cache of what was just loaded into memory; a failed save is logged (index files are outside the statement's list)"},
			"updater.(*ResourceRegistry).downloadIndex / error call:os.WriteFile#0 #2":         {Reason: "detached signature of the index copy; as above"},
		})
}

// c17R7: a size cap on copied content is never applied silently: hitting the
// cap is detected and reported as an error instead of publishing the prefix.
func c17R7(c *Ctx, r *Report) {
	const rule = "C17-R7"
	r.SetFloor(rule, 1)
	isEOF := Guard{Name: "errors.Is(err, io.EOF)", Truthy: true, Match: func(b ssa.Value) bool {
		call, ok := isCallTo(b, "errors.Is")
		if !ok || len(call.Call.Args) != 2 {
			return false
		}
		u, ok := call.Call.Args[1].(*ssa.UnOp)
		if !ok {
			return false
		}
		g, ok := u.X.(*ssa.Global)
		return ok && g.Name() == "EOF" && g.Pkg != nil && g.Pkg.Pkg.Path() == "io"
	}}
	n := 0
	for _, fn := range c.allFuncs {
		if fn.Pkg == nil || fn.Blocks == nil || !inScope(short(fn.Pkg.Pkg.Path())) {
			continue
		}
		ord := map[string]int{}
		for _, ci := range callsIn(fn, "io.CopyN") {
			n++
			cons := ordinal(ord, fnKey(fn)+" / io.CopyN cap")
			call, _ := ci.(*ssa.Call)
			// the test of CopyN's error
			var tests []*ssa.If
			for _, ifi := range errSwallowSites(c, fn) {
				base, _ := peel(ifi.Cond)
				for _, l := range c.Leaves(base) {
					if ex, ok := l.(*ssa.Extract); ok && ex.Tuple == ssa.Value(call) {
						tests = append(tests, ifi)
					}
				}
			}
			if call == nil || len(tests) == 0 {
				r.Undecided(rule, cons, "the test of CopyN's error was not found")
				continue
			}
			for _, ifi := range tests {
				_, pos := peel(ifi.Cond)
				succ := ifi.Block().Succs[1] // err == nil side
				if !pos {
					succ = ifi.Block().Succs[0]
				}
				p := reachFromBlockStart(fn, succ, isNilErrReturn, []Guard{isEOF}, nil)
				r.Check(p == nil, rule, cons, "when CopyN copied the full cap (no error) success is returned only after a further read found the end of the source",
					"CopyN returns no error exactly when the cap was reached; the function then returns success without checking that the source ends there, so a larger source is published as a truncated file: "+strings.Join(c.pathString(p), " -> "), c.Pos(ci.Pos()))
			}
		}
		for _, ci := range callsIn(fn, "io.LimitReader") {
			n++
			cons := ordinal(ord, fnKey(fn)+" / io.LimitReader cap")
			call, _ := ci.(*ssa.Call)
			// does the capped reader feed a content step?
			feeds := ""
			eachInstr(fn, func(in ssa.Instruction) {
				cc, ok := in.(ssa.CallInstruction)
				if !ok || in == ssa.Instruction(ci) {
					return
				}
				name, isStep := c17ContentStep(calleeName(cc.Common()))
				if !isStep {
					return
				}
				for _, a := range cc.Common().Args {
					for _, l := range c.Leaves(a) {
						if call != nil && l == ssa.Value(call) {
							feeds = name
						}
					}
				}
			})
			if feeds == "" {
				r.OK(rule, cons, "the capped reader does not feed a publishing step")
				continue
			}
			r.Bad(rule, cons, "content passed to "+feeds+" is read through io.LimitReader: everything beyond the limit is cut off without an error and the truncated file is published as complete", c.Pos(ci.Pos()))
		}
	}
	if n == 0 {
		r.Bad(rule, "io.CopyN cap", "no size-capped copy found (copyFromZipArchive expected): anchor lost")
	}
}

// c18R4: scope predicates compare paths exactly: nothing case-folding is
// reachable from the functions that decide whether a path is inside a root.
func c18R4(c *Ctx, r *Report) {
	const rule = "C18-R4"
	r.SetFloor(rule, 5)
	folding := map[string]bool{"strings.EqualFold": true, "strings.ToLower": true, "strings.ToUpper": true, "strings.Title": true, "strings.ToTitle": true,
		"bytes.EqualFold": true, "bytes.ToLower": true, "bytes.ToUpper": true, "unicode.ToLower": true, "unicode.ToUpper": true, "unicode.SimpleFold": true,
		"strings.ToLowerSpecial": true, "strings.ToUpperSpecial": true}
	for _, name := range []string{"database/storage/fstree.(*FSTree).isInScope", "database/storage/fstree.(*FSTree).buildFilePath", "utils.(*DirStructure).EnsureAbsPath",
		"updater.(*Resource).unpackZipArchive", "updater.(*ResourceRegistry).ScanStorage"} {
		root := c.Func(name)
		if root == nil {
			r.Undecided(rule, name, "anchor function missing")
			continue
		}
		var bad ssa.Instruction
		var where *ssa.Function
		for _, f := range c.staticallyReachable(root) {
			eachInstr(f, func(in ssa.Instruction) {
				if ci, ok := in.(ssa.CallInstruction); ok && bad == nil && folding[calleeName(ci.Common())] {
					bad, where = in, f
				}
			})
		}
		detail := ""
		if bad != nil {
			detail = calleeName(bad.(ssa.CallInstruction).Common()) + " in " + fnKey(where)
		}
		r.Check(bad == nil, rule, name+" / exact path comparison", "no case-folding function is reachable from the scope decision",
			"the scope decision uses "+detail+": on a case-sensitive file system a sibling directory whose name differs from the root only in case passes as inside the root", posOf(c, bad))
	}
}

// c19R10: the versioned-path converters look at their path only through
// path.Split: the version is located in / inserted into the file name, directory
// names that look like a version (or contain dots) are never touched.
func c19R10(c *Ctx, r *Report) {
	const rule = "C19-R10"
	r.SetFloor(rule, 3)
	for _, name := range []string{"updater.GetIdentifierAndVersion", "updater.GetVersionedPath"} {
		fn := c.Func(name)
		if fn == nil {
			r.Undecided(rule, name, "anchor function missing")
			continue
		}
		p := fn.Params[0]
		var bad ssa.Instruction
		nSplit := 0
		if refs := p.Referrers(); refs != nil {
			for _, ref := range *refs {
				if _, isDbg := ref.(*ssa.DebugRef); isDbg {
					continue
				}
				if ci, ok := ref.(ssa.CallInstruction); ok {
					if n := calleeName(ci.Common()); n == "path.Split" || n == "path/filepath.Split" {
						nSplit++
						continue
					}
				}
				if bad == nil {
					bad = ref
				}
			}
		}
		r.Check(bad == nil && nSplit > 0, rule, name+" / path parameter "+p.Name()+" only split into directory and file name",
			"the path is only handed to path.Split; all further work happens on the file-name part",
			"the whole path (not just its file name) is searched or rewritten: a directory name that looks like a version, or contains a dot, changes the result, so identifier/version pairs no longer convert back", posOf(c, bad))
	}
	// the version is searched in the file name
	if fn := c.Func("updater.GetIdentifierAndVersion"); fn != nil {
		for _, ci := range callsIn(fn, "regexp.Regexp.FindString") {
			arg := ci.Common().Args[len(ci.Common().Args)-1]
			ex, ok := arg.(*ssa.Extract)
			_, isSplit := isCallTo(arg, "path.Split", "path/filepath.Split")
			r.Check(ok && isSplit && ex.Index == 1, rule, "updater.GetIdentifierAndVersion / version searched in the file name", "FindString is applied to path.Split's file part",
				"the version pattern is searched in something else than the file-name part", c.Pos(ci.Pos()))
		}
	}
}

// probeSwallow lists all swallow sites of the repo (development aid, -prop all does not run it).
func probeSwallow(c *Ctx) {
	r := NewReport("probe")
	errSwallowRule(c, r, "probe", 0, func(fn *ssa.Function) bool { return fn.Pkg != nil }, nil, map[string]swallowSpec{})
	n := 0
	for _, o := range r.Obligs {
		if o.Status == Violated {
			n++
			fmt.Println("SWALLOW", o.Construct, "|", o.Detail[:min(len(o.Detail), 200)])
		}
	}
	fmt.Println("swallow sites:", n, "of", len(r.Obligs))
}

// c02R15: A13 over the database layer - which errors may end in success, and under which exact condition.
func c02R15(c *Ctx, r *Report) {
	notFound := errIsGuard(modPath+"/database", "ErrNotFound")
	denied := errIsGuard(modPath+"/database", "ErrPermissionDenied")
	notExist := errIsGuard("io/fs", "ErrNotExist")
	retryOK := errNilGuard("the retried write succeeded", "database/storage/fstree.writeFile")
	errSwallowRule(c, r, "C02-R15", 100, func(fn *ssa.Function) bool {
		if fn.Pkg == nil {
			return false
		}
		p := short(fn.Pkg.Pkg.Path())
		return p == "database" || strings.HasPrefix(p, "database/storage") || p == "database/iterator"
	}, nil, map[string]swallowSpec{
		"error call:database.Interface.Get#1": {Guards: []Guard{notFound, denied}, Reason: "Exists answers false for ErrNotFound and true for ErrPermissionDenied (a non-privileged interface may learn that the key exists)"},
		"error call:database.Interface.getMeta#2": {Guards: []Guard{notFound}, Reason: "writing a record that does not exist yet (Put, PutNew)"},
		"error call:os.ReadFile#1": {Guards: []Guard{notExist}, Reason: "no registry file yet / a file deleted between the directory walk and the read is skipped"},
		"error call:github.com/dgraph-io/badger.Txn.Delete#0": {Guards: []Guard{errIsGuard("github.com/dgraph-io/badger", "ErrKeyNotFound")}, Reason: "deleting an absent key is not an error (sibling agreement, C02-R7)"},
		"database/storage/badger.(*Badger).MaintainThorough / error var err":        {Reason: "the value-log GC is repeated until it reports that nothing is left to rewrite (an error value by design of the badger API)"},
		"error call:os.Remove#0": {Guards: []Guard{notExist}, Reason: "deleting an absent key is not an error (sibling agreement, C02-R7)"},
		"database/storage/fstree.(*FSTree).Put / error call:database/storage/fstree.writeFile#0": {Guards: []Guard{retryOK}, Reason: "a first failure is retried after creating the directory; success only if the retry succeeded"},
		"error call:os.Stat#1": {Guards: []Guard{notExist}, Reason: "a path that names no file: the walk starts at its parent / the database directory is created when missing"},
	})
}

// c04R11: A13 over package config.
func c04R11(c *Ctx, r *Report) {
	notExist := errIsGuard("io/fs", "ErrNotExist")
	errSwallowRule(c, r, "C04-R11", 25, func(fn *ssa.Function) bool { return fn.Pkg != nil && short(fn.Pkg.Pkg.Path()) == "config" }, nil, map[string]swallowSpec{
		"config.start / error call:config.registerAsDatabase#0": {Guards: []Guard{notExist}, Reason: "first start without persisted state"},
		"config.start / error call:config.loadConfig#0":         {Guards: []Guard{notExist}, Reason: "no config file yet"},
	})
}
