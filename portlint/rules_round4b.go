package main

import (
	"fmt"
	"strings"

	"golang.org/x/tools/go/ssa"
)

// c09R10: the format a loader reports is the serialization format the data was
// actually decoded with - never the identifier of the compression wrapper.
func c09R10(c *Ctx, r *Report) {
	const rule = "C09-R10"
	r.SetFloor(rule, 4)
	for _, name := range []string{"formats/dsd.Load", "formats/dsd.DecompressAndLoad"} {
		fn := c.Func(name)
		if fn == nil {
			r.Undecided(rule, name, "anchor function missing")
			continue
		}
		k := 0
		eachInstr(fn, func(in ssa.Instruction) {
			ret, ok := in.(*ssa.Return)
			if !ok || len(ret.Results) != 2 {
				return
			}
			k++
			cons := fmt.Sprintf("%s / return #%d reports the decoded format", name, k)
			errV := retVal(ret, 1)
			for _, l := range c.Leaves(retVal(ret, 0)) {
				l = unwrapConv(l)
				if v, isC := constInt(l); isC && v == 0 {
					r.OK(rule, cons, "no format (0) on an error return")
					continue
				}
				if ex, ok := l.(*ssa.Extract); ok && ex.Index == 0 {
					if _, ok := isCallTo(ex, "formats/dsd.DecompressAndLoad", "formats/dsd.Load"); ok {
						r.OK(rule, cons, "the inner loader's format is passed on")
						continue
					}
				}
				// decoded with exactly this format in the same return
				if call, ok := isCallTo(errV, "formats/dsd.LoadAsFormat"); ok && len(call.Call.Args) >= 2 && unwrapConv(call.Call.Args[1]) == l {
					r.OK(rule, cons, "the reported format is the one handed to LoadAsFormat, whose error is returned alongside")
					continue
				}
				// or validated as a serialization format on every path
				g := Guard{Name: "ValidateSerializationFormat(format) ok", Truthy: true, Match: func(b ssa.Value) bool {
					ex, ok := b.(*ssa.Extract)
					if !ok || ex.Index != 1 {
						return false
					}
					call, ok := isCallTo(ex, "formats/dsd.ValidateSerializationFormat")
					return ok && unwrapConv(call.Call.Args[0]) == l
				}}
				p := ReachTargetAvoiding(fn, ret, []Guard{g}, nil)
				r.Check(p == nil, rule, cons, "the reported format was validated as a serialization format on every path to this return",
					"the loader reports a format identifier that was neither decoded with nor validated as a serialization format (for compressed data this is the compression identifier, not the format of the content)", c.Pos(ret.Pos()))
			}
		})
	}
}

// c10R6: PrependLength always prepends: every result is Pack64(len(data)) followed by the data.
func c10R6(c *Ctx, r *Report) {
	const rule = "C10-R6"
	r.SetFloor(rule, 1)
	fn := c.Func("formats/varint.PrependLength")
	if fn == nil {
		r.Undecided(rule, "formats/varint.PrependLength", "anchor function missing")
		return
	}
	k := 0
	eachInstr(fn, func(in ssa.Instruction) {
		ret, ok := in.(*ssa.Return)
		if !ok || len(ret.Results) != 1 {
			return
		}
		k++
		cons := fmt.Sprintf("formats/varint.PrependLength / return #%d", k)
		v := retVal(ret, 0)
		o := c.Origins(v)
		var hasPrefix func(v ssa.Value, d int) bool
		hasPrefix = func(v ssa.Value, d int) bool {
			if d > 8 {
				return false
			}
			switch x := v.(type) {
			case *ssa.Call:
				switch calleeName(&x.Call) {
				case "formats/varint.Pack64":
					return true
				case "builtin.append":
					return hasPrefix(x.Call.Args[0], d+1) // the head of the result
				}
			case *ssa.Slice:
				if x.Low == nil {
					return hasPrefix(x.X, d+1)
				}
			case *ssa.Phi:
				for _, e := range x.Edges {
					if !hasPrefix(e, d+1) {
						return false
					}
				}
				return len(x.Edges) > 0
			}
			return false
		}
		okShape := hasPrefix(v, 0)
		detail := "the result is built from " + strings.Join(o, ",") + " only"
		r.Check(okShape, rule, cons, "the result starts with Pack64(...) on every path (the prefix value itself is C10-R4)", detail+": a result without the length prefix (e.g. for empty input) is not a block GetNextBlock can read back", c.Pos(ret.Pos()))
	})
}
