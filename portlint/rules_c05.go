package main

import (
	"fmt"
	"go/token"
	"go/types"
	"strings"

	"golang.org/x/tools/go/ssa"
)

func init() {
	register(&propDef{
		ID: "C05",
		Explanation: "Decides structural necessary conditions of 'stopping a module waits for all managed work': " +
			"(R1) the stop sequence in stopAllTasks is ordered ctrlFuncRunning.Set < stopFlag.Set < cancelCtx() < start of the stop function, the wait on stopComplete/timeout precedes the report, and stop() re-arms the completion channel/flag before launching it; " +
			"(R2) every +1 on workerCnt/taskCnt/microTaskCnt is paired with a -1 followed by checkIfStopComplete inside a deferred closure that is registered before any foreign code can run (or inside the once-guarded done closure of the signal variant), and every -1 is followed by checkIfStopComplete; " +
			"(R3) close(stopComplete) is reachable only across stopFlag set, no control function running, all three counters zero and the single-shot flag, under the module lock (truth table by finite-valuation propagation); " +
			"(R4) every managed callback receives the module context (m.Ctx) resp. a task context derived from it; " +
			"(R5) newTask, TriggerEvent, processEventTrigger, InjectEvent and runWithLocking are gated by OnlineSoon/isActive, and OnlineSoon is false once the stop flag is set (truth table); (R6) start() installs a fresh context and clears the stop flag under the lock before the start function runs. " +
			"(R7) lock pairing over the functions of package(s) modules: " + lockRuleText + ". " +
			"(R8) the shutdown pass is not left while a launched stop is unreported, also when another stop failed (= C01-R6 for stopModules); " +
			"(R9) the service-worker restart loop is left/aborted by the module's own context and stop flag (= C06-R5); " +
			"(R10) Module.Ctx and Task.ctx are overwritten (outside constructors) only after the old cancel function was called or found nil: work that got the old context (from prep, or left over from a failed start) is otherwise never cancelled by stop; " +
			"(R11) stop completion survives a panic: the control-function flag is cleared and checkIfStopComplete runs on every path of the deferred code of startCtrlFn and executeWithLocking (= C06-R2); " +
			"(R12) an event hook is bound to the module that registers it (eventHook.hookingModule is the receiver of RegisterEventHook), so it runs as that module's worker with that module's context; " +
			"NOT decided: promptness/timeouts, the real overlap of finishing goroutines with the stopper under all schedules.",
		Rules: []ruleFn{c05R1, c05R2, c05R3, c05R4, c05R5, c05R6,
			lockRuleFor("C05-R7", 25, []string{"modules"}, []string{}, map[string]string{}),
			borrowRule(c01R6, "C01-R6", "C05-R8", 2, func(s string) bool { return strings.Contains(s, "stopModules") }),
			borrowRule(c06R5, "C06-R5", "C05-R9", 2, nil), c05R10,
			borrowRule(c06R2, "C06-R2", "C05-R11", 4, func(s string) bool { return strings.Contains(s, "startCtrlFn") || strings.Contains(s, "checkIfStopComplete") }), c05R12},
	})
}

func isDynCallOfField(owner, field string) func(ssa.Instruction) bool {
	return func(in ssa.Instruction) bool {
		ci, ok := in.(*ssa.Call)
		if !ok || ci.Call.IsInvoke() {
			return false
		}
		return fieldLoadOf(ci.Call.Value, owner, field)
	}
}

func c05R1(c *Ctx, r *Report) { stopSequenceRule(c, r, "C05-R1") }

// stopSequenceRule is shared with C01-R8: a module that goes offline before its stop
// routine has begun lets its dependencies stop while it is still running.
func stopSequenceRule(c *Ctx, r *Report, rule string) {
	r.SetFloor(rule, 6)
	fn := c.Func("modules.(*Module).stopAllTasks")
	if fn == nil {
		r.Undecided(rule, "modules.(*Module).stopAllTasks", "anchor function missing")
		return
	}
	type step struct {
		name string
		pred func(ssa.Instruction) bool
	}
	isStartStopFn := func(in ssa.Instruction) bool {
		ci, ok := in.(*ssa.Call)
		if !ok || calleeName(&ci.Call) != "modules.Module.startCtrlFn" {
			return false
		}
		return fieldLoadOf(ci.Call.Args[2], "modules.Module", "stopFn")
	}
	steps := []step{
		{"ctrlFuncRunning.Set()", isAboolOp("m.ctrlFuncRunning", "Set")},
		{"stopFlag.Set()", isAboolOp("m.stopFlag", "Set")},
		{"cancelCtx()", isDynCallOfField("modules.Module", "cancelCtx")},
		{"startCtrlFn(stopFn)", isStartStopFn},
	}
	find := func(p func(ssa.Instruction) bool) []ssa.Instruction {
		var out []ssa.Instruction
		eachInstr(fn, func(in ssa.Instruction) {
			if p(in) {
				out = append(out, in)
			}
		})
		return out
	}
	for i, s := range steps {
		sites := find(s.pred)
		if len(sites) == 0 {
			r.Bad(rule, "modules.(*Module).stopAllTasks / step "+s.name, "stop sequence step missing: "+s.name+" is never executed")
			continue
		}
		if i == 0 {
			// first step must happen on every path to the next one (checked below)
			continue
		}
		prev := steps[i-1]
		for _, site := range sites {
			ok := MustPrecede(fn, prev.pred, site)
			r.Check(ok, rule, fmt.Sprintf("modules.(*Module).stopAllTasks / %s before %s", prev.name, s.name),
				prev.name+" precedes "+s.name+" on every path", s.name+" can be reached without "+prev.name+" having happened first", c.Pos(site.Pos()))
		}
	}
	// cancel must also precede the stop function on every path (transitively implied, stated explicitly for the report)
	isWait := func(in ssa.Instruction) bool {
		sel, ok := in.(*ssa.Select)
		if !ok || !sel.Blocking {
			return false
		}
		for _, st := range sel.States {
			if st.Dir == types.RecvOnly && strings.HasSuffix(vpath(st.Chan), ".stopComplete") {
				return true
			}
		}
		return false
	}
	isReport := func(in ssa.Instruction) bool {
		s, ok := in.(*ssa.Send)
		return ok && strings.Contains(s.Chan.Type().String(), "modules.report")
	}
	reports := find(isReport)
	if len(reports) == 0 {
		r.Undecided(rule, "modules.(*Module).stopAllTasks / report", "no report send found")
	}
	for _, rep := range reports {
		r.Check(MustPrecede(fn, isWait, rep), rule, "modules.(*Module).stopAllTasks / wait before report",
			"the blocking select on stopComplete/timeout precedes the report on every path", "the stop is reported without waiting for the module's work", c.Pos(rep.Pos()))
		r.Check(MustPrecede(fn, isStartStopFn, rep), rule, "modules.(*Module).stopAllTasks / stop function before report",
			"the stop function is started before the report on every path", "the stop is reported without running the stop function", c.Pos(rep.Pos()))
	}
	// the wait select has exactly the completion channel and a timeout
	for _, w := range find(isWait) {
		sel := w.(*ssa.Select)
		okTimeout := false
		for _, st := range sel.States {
			if _, ok := isCallTo(st.Chan, "time.After"); ok {
				okTimeout = true
			}
		}
		r.Check(okTimeout && len(sel.States) == 2, rule, "modules.(*Module).stopAllTasks / wait select shape",
			"waits for stopComplete or the stop timeout only", fmt.Sprintf("the completion wait has %d cases; a case other than stopComplete/timeout lets the stop finish early", len(sel.States)))
	}
	// stop(): re-arm completion before launching stopAllTasks
	st := c.Func("modules.(*Module).stop")
	if st == nil {
		r.Undecided(rule, "modules.(*Module).stop", "anchor function missing")
		return
	}
	var launch ssa.Instruction
	eachInstr(st, func(in ssa.Instruction) {
		if g, ok := in.(*ssa.Go); ok && calleeName(&g.Call) == "modules.Module.stopAllTasks" {
			launch = in
		}
	})
	if launch == nil {
		r.Undecided(rule, "modules.(*Module).stop / go stopAllTasks", "launch not found")
		return
	}
	isMakeStopComplete := func(in ssa.Instruction) bool {
		s, ok := in.(*ssa.Store)
		if !ok {
			return false
		}
		fr, ok := fieldOfAddr(s.Addr)
		if !ok || fr.Name != "stopComplete" {
			return false
		}
		_, isMake := s.Val.(*ssa.MakeChan)
		return isMake
	}
	isResetCompleted := func(in ssa.Instruction) bool {
		p, m, ok := aboolOp(in)
		if !ok || p != "m.stopCompleted" {
			return false
		}
		if m == "UnSet" {
			return true
		}
		if m == "SetTo" {
			b, isC := constBool(in.(ssa.CallInstruction).Common().Args[1])
			return isC && !b
		}
		return false
	}
	r.Check(MustPrecede(st, isMakeStopComplete, launch), rule, "modules.(*Module).stop / fresh stopComplete before launch",
		"a fresh completion channel is installed before stopAllTasks is launched", "stopAllTasks is launched with the previous (already closed) completion channel: the stop does not wait")
	r.Check(MustPrecede(st, isResetCompleted, launch), rule, "modules.(*Module).stop / stopCompleted reset before launch",
		"the single-shot flag is cleared before stopAllTasks is launched", "the single-shot completion flag is not cleared: completion is never signalled and every stop waits out the timeout")
}

var moduleCounters = map[string]bool{"workerCnt": true, "taskCnt": true, "microTaskCnt": true}

func counterOf(path string) (string, bool) {
	i := strings.LastIndex(path, ".")
	if i < 0 {
		return "", false
	}
	f := path[i+1:]
	return f, moduleCounters[f]
}

func c05R2(c *Ctx, r *Report) {
	const rule = "C05-R2"
	r.SetFloor(rule, 10)
	ord := map[string]int{}
	nInc, nDec := 0, 0
	for _, fn := range c.FuncsIn("modules") {
		eachInstr(fn, func(in ssa.Instruction) {
			path, delta, ok := atomicAdd(in)
			if !ok {
				return
			}
			cnt, isCounter := counterOf(path)
			if !isCounter {
				return
			}
			if delta > 0 {
				nInc++
				cons := ordinal(ord, fmt.Sprintf("%s / %s +1", fnKey(fn), cnt))
				// Option A: deferred release registered right after
				isDec := func(i2 ssa.Instruction) bool {
					p2, d2, ok := atomicAdd(i2)
					if !ok || d2 >= 0 {
						return false
					}
					c2, _ := counterOf(p2)
					return c2 == cnt
				}
				hasRelease := func(d *ssa.Defer) bool {
					cl := deferredFunc(d)
					if cl == nil || cl.Blocks == nil {
						return false
					}
					// the release (directly, or through a same-package callee) must execute on every path of the deferred function
					isRel := func(i2 ssa.Instruction) bool {
						if isDec(i2) {
							return true
						}
						if ci, ok := i2.(*ssa.Call); ok {
							if callee := staticCallee(&ci.Call); callee != nil && callee.Pkg == cl.Pkg && callee.Blocks != nil {
								return ReachInstr(callee, nil, isExit, isDec) == nil
							}
						}
						return false
					}
					return ReachInstr(cl, nil, isExit, isRel) == nil
				}
				bad, okA := deferRegisteredRightAfter(fn, in, hasRelease)
				if okA {
					r.OK(rule, cons, "the matching -1 is in a deferred closure registered before any foreign code can run")
					return
				}
				// Option B: handed-out release closure guarded by a once-flag
				okB := false
				eachInstr(fn, func(i2 ssa.Instruction) {
					ret, ok := i2.(*ssa.Return)
					if !ok || len(ret.Results) == 0 {
						return
					}
					mc, ok := retVal(ret, 0).(*ssa.MakeClosure)
					if !ok {
						return
					}
					cl := mc.Fn.(*ssa.Function)
					rel := func(i3 ssa.Instruction) bool {
						ci, ok := i3.(*ssa.Call)
						if !ok {
							return false
						}
						callee := staticCallee(&ci.Call)
						if callee == nil {
							return false
						}
						return funcHas(callee, 1, func(i4 ssa.Instruction) bool {
							p2, d2, ok := atomicAdd(i4)
							c2, _ := counterOf(p2)
							return ok && d2 < 0 && c2 == cnt
						})
					}
					var relCall ssa.Instruction
					eachInstr(cl, func(i3 ssa.Instruction) {
						if rel(i3) {
							relCall = i3
						}
					})
					if relCall == nil {
						return
					}
					once := Guard{Name: "once.SetToIf(false,true)", Truthy: true, Match: func(b ssa.Value) bool {
						call, ok := b.(*ssa.Call)
						if !ok {
							return false
						}
						_, m, ok := aboolOp(call)
						return ok && m == "SetToIf"
					}}
					if ReachAvoiding(cl, nil, relCall.Block(), []Guard{once}) == nil {
						okB = true
					}
				})
				if okB {
					r.OK(rule, cons, "the matching -1 is in the returned done closure behind a once-flag (SetToIf)")
					return
				}
				r.Bad(rule, cons, fmt.Sprintf("no release of %s is registered (deferred) before foreign code can run: a panic or early return leaves the counter raised and the module can never complete its stop", cnt), posOf(c, bad))
			} else if delta < 0 {
				nDec++
				cons := ordinal(ord, fmt.Sprintf("%s / %s -1", fnKey(fn), cnt))
				ok := MustFollow(fn, in, isCallInstrTo(fnCheckStop))
				r.Check(ok, rule, cons+" / then checkIfStopComplete", "every path after the decrement calls checkIfStopComplete",
					"the counter is decremented without re-evaluating stop completion: the last finishing item does not wake the stopper", c.Pos(in.Pos()))
				// decrement must live in a deferred closure or in concludeMicroTask (which is only called from deferred/once-guarded code)
				inDefer := false
				if p := fn.Parent(); p != nil {
					eachInstr(p, func(i2 ssa.Instruction) {
						if d, ok := i2.(*ssa.Defer); ok && deferredFunc(d) == fn {
							inDefer = true
						}
					})
				}
				if fnKey(fn) == "modules.(*Module).concludeMicroTask" {
					inDefer = true // callers checked in C15-R3
				}
				r.Check(inDefer, rule, cons+" / in deferred code", "the decrement runs in deferred code (also on panic)",
					"the decrement is not in deferred code: a panic in the work function skips it", c.Pos(in.Pos()))
			}
		})
	}
	if nInc < 5 || nDec < 4 {
		r.Undecided(rule, "instance-floor", fmt.Sprintf("found %d increments / %d decrements of module counters (expected >=5 / >=4)", nInc, nDec))
	}
}

func c05R3(c *Ctx, r *Report) { stopCompletionRule(c, r, "C05-R3") }

// stopCompletionRule is shared by C05-R3 and C01-R7: a module counts as
// "completely stopped" only when its stop routine has ended and no work runs.
func stopCompletionRule(c *Ctx, r *Report, rule string) {
	r.SetFloor(rule, 2)
	fn := c.Func("modules.(*Module).checkIfStopComplete")
	if fn == nil {
		r.Undecided(rule, "modules.(*Module).checkIfStopComplete", "anchor function missing")
		return
	}
	// find close(m.stopComplete)
	var closes []ssa.Instruction
	eachInstr(fn, func(in ssa.Instruction) {
		if ci, ok := in.(ssa.CallInstruction); ok && calleeName(ci.Common()) == "builtin.close" {
			if strings.HasSuffix(vpath(ci.Common().Args[0]), ".stopComplete") {
				closes = append(closes, in)
			}
		}
	})
	if len(closes) == 0 {
		r.Bad(rule, fnKey(fn)+" / close(stopComplete)", "completion is never signalled: close(m.stopComplete) not found")
		return
	}
	// all closes of stopComplete in the repo are here
	for _, f := range c.FuncsIn("modules") {
		eachInstr(f, func(in ssa.Instruction) {
			if ci, ok := in.(ssa.CallInstruction); ok && calleeName(ci.Common()) == "builtin.close" && f != fn {
				if strings.HasSuffix(vpath(ci.Common().Args[0]), ".stopComplete") {
					r.Bad(rule, fnKey(f)+" / close(stopComplete)", "stopComplete is closed outside checkIfStopComplete, bypassing the completion condition", c.Pos(in.Pos()))
				}
			}
		})
	}
	// truth table: inputs stopFlag, ctrlFuncRunning, 3 counters (0 / 1), SetToIf result
	n := 0
	var bad []string
	table := map[string]string{}
	for bits := 0; bits < 64; bits++ {
		stop, ctrl := bits&1 != 0, bits&2 != 0
		cnt := map[string]int64{"workerCnt": int64(bits >> 2 & 1), "taskCnt": int64(bits >> 3 & 1), "microTaskCnt": int64(bits >> 4 & 1)}
		once := bits&32 != 0
		it := &Interp{Fn: fn}
		it.Input = func(v ssa.Value) (AV, bool) {
			call, ok := v.(*ssa.Call)
			if !ok {
				return AV{}, false
			}
			if p, m, ok := aboolOp(call); ok {
				switch {
				case p == "m.stopFlag" && m == "IsSet":
					return avBool(stop), true
				case p == "m.stopFlag" && m == "IsNotSet":
					return avBool(!stop), true
				case p == "m.ctrlFuncRunning" && m == "IsSet":
					return avBool(ctrl), true
				case p == "m.ctrlFuncRunning" && m == "IsNotSet":
					return avBool(!ctrl), true
				case p == "m.stopCompleted" && m == "SetToIf":
					return avBool(once), true
				}
			}
			if calleeName(&call.Call) == fnAtomicLoad {
				if f, ok := counterOf(vpath(call.Call.Args[0])); ok {
					return avInt(cnt[f]), true
				}
			}
			return AV{}, false
		}
		it.Outcome = func(in ssa.Instruction, _ func(ssa.Value) AV) string {
			for _, cl := range closes {
				if in == cl {
					return "close"
				}
			}
			return ""
		}
		if !it.Run() {
			r.Undecided(rule, fnKey(fn), "state budget exceeded")
			return
		}
		n++
		key := fmt.Sprintf("stopFlag=%v ctrlFuncRunning=%v worker=%d task=%d microtask=%d once=%v", stop, ctrl, cnt["workerCnt"], cnt["taskCnt"], cnt["microTaskCnt"], once)
		_, closed := it.Outcomes["close"]
		table[key] = fmt.Sprint(closed)
		want := stop && !ctrl && cnt["workerCnt"] == 0 && cnt["taskCnt"] == 0 && cnt["microTaskCnt"] == 0 && once
		if closed && !want {
			bad = append(bad, "completes although "+key)
		}
		if !closed && want {
			bad = append(bad, "never completes although "+key)
		}
	}
	r.Tables[rule] = compressTable(table)
	r.Check(len(bad) == 0, rule, fnKey(fn)+" / completion truth table",
		fmt.Sprintf("%d valuations: completion is signalled exactly when the stop flag is set, no control function runs, all three counters are zero and the single-shot flag was won", n),
		strings.Join(uniq(bad), "; "))
	held := LocksHeldAt(fn)
	for _, cl := range closes {
		lockOK := false
		for l := range held[cl] {
			if strings.HasSuffix(l, ".RWMutex") && !strings.HasPrefix(l, "R:") {
				lockOK = true
			}
		}
		r.Check(lockOK, rule, fnKey(fn)+" / close under module lock", "the completion channel is closed with the module lock held (stop() replaces it under the same lock)",
			"close(stopComplete) without the module lock races with stop() re-making the channel", c.Pos(cl.Pos()))
	}
}

func c05R4(c *Ctx, r *Report) {
	const rule = "C05-R4"
	r.SetFloor(rule, 5)
	// (a) callbacks invoked with a context argument
	ord := map[string]int{}
	for _, d := range c.dynamicCalls("modules") {
		sig, ok := d.Instr.Common().Value.Type().Underlying().(*types.Signature)
		if !ok || sig.Params().Len() == 0 {
			continue
		}
		if sig.Params().At(0).Type().String() != "context.Context" {
			continue
		}
		arg := d.Instr.Common().Args[0]
		or := c.Origins(arg)
		cons := ordinal(ord, fmt.Sprintf("%s / callback(ctx) from %s", fnKey(d.Fn), d.Callee))
		ok2 := false
		why := ""
		switch {
		case onlyOrigins(or, "field:m.Ctx"):
			ok2, why = true, "receives m.Ctx"
		case onlyOrigins(or, "field:t.ctx"):
			ok2, why = true, "receives the task context t.ctx (derived from the module context, see the store obligations)"
		case onlyOrigins(or, "param:ctx"):
			// closure given to RunWorker: ctx comes from runWorker
			if _, ok := closurePassedTo(d.Fn, "modules.Module.RunWorker", "modules.Module.StartWorker", "modules.Module.StartServiceWorker"); ok {
				ok2, why = true, "receives the ctx parameter of a closure run by RunWorker (i.e. the running module's m.Ctx)"
				// an event hook must run on (and be accounted to) the module that registered it
				if strings.HasSuffix(d.Callee, ".hookFn") {
					base := strings.TrimSuffix(strings.TrimPrefix(d.Callee, "field:"), ".hookFn")
					recv := runnerReceiver(d.Fn)
					if recv != base+".hookingModule" {
						ok2 = false
						or = []string{"the context of " + recv + " (RunWorker receiver), not of " + base + ".hookingModule"}
					} else {
						why = "the hook runs in RunWorker of its own hooking module and receives that module's context"
					}
				}
			}
		}
		r.Check(ok2, rule, cons, why, fmt.Sprintf("managed callback is invoked with a context from %v instead of the module's context: it is not cancelled when the module stops", or), c.Pos(d.Instr.Pos()))
	}
	// (b) Task.ctx only from context.WithCancel(<module>.Ctx)
	stores := c.StoresTo("modules.Task", "ctx")
	if len(stores) < 2 {
		r.Undecided(rule, "store Task.ctx", fmt.Sprintf("expected >=2 stores to Task.ctx, found %d", len(stores)))
	}
	for _, s := range stores {
		st := s.Instr.(*ssa.Store)
		cons := ordinal(ord, fmt.Sprintf("%s / store Task.ctx", fnKey(s.Fn)))
		ok := false
		detail := ""
		if ex, isEx := st.Val.(*ssa.Extract); isEx && ex.Index == 0 {
			if call, isCall := ex.Tuple.(*ssa.Call); isCall && calleeName(&call.Call) == "context.WithCancel" {
				or := c.Origins(call.Call.Args[0])
				detail = fmt.Sprint(or)
				if onlyOrigins(or, "field:m.Ctx") || onlyOrigins(or, "field:t.module.Ctx") {
					ok = true
				}
			}
		}
		r.Check(ok, rule, cons, "task context = context.WithCancel(module context)", "task context is not derived from the module context (parent: "+detail+"): tasks are not cancelled when the module stops", c.Pos(st.Pos()))
	}
}

func c05R5(c *Ctx, r *Report) {
	const rule = "C05-R5"
	r.SetFloor(rule, 8)
	onlineSoon := callGuard("OnlineSoon()==true", true, "modules.Module.OnlineSoon")
	// OnlineSoon truth table
	if fn := c.Func("modules.(*Module).OnlineSoon"); fn == nil {
		r.Undecided(rule, "modules.(*Module).OnlineSoon", "anchor function missing")
	} else {
		var bad []string
		n := 0
		for bits := 0; bits < 16; bits++ {
			mgmt, en, dep, stop := bits&1 != 0, bits&2 != 0, bits&4 != 0, bits&8 != 0
			it := &Interp{Fn: fn, Outcome: retOutcome}
			it.Input = func(v ssa.Value) (AV, bool) {
				p, neg, ok := aboolRead(v)
				if !ok {
					return AV{}, false
				}
				var b bool
				switch p {
				case "global:modules.moduleMgmtEnabled":
					b = mgmt
				case "m.enabled":
					b = en
				case "m.enabledAsDependency":
					b = dep
				case "m.stopFlag":
					b = stop
				default:
					return AV{}, false
				}
				return avBool(b != neg), true
			}
			if !it.Run() {
				r.Undecided(rule, fnKey(fn), "state budget exceeded")
				return
			}
			n++
			for _, l := range outcomeLabels(it.Outcomes) {
				if l != "ret(false)" && (stop || (mgmt && !en && !dep)) {
					bad = append(bad, fmt.Sprintf("OnlineSoon may be true with mgmt=%v enabled=%v asDep=%v stopFlag=%v", mgmt, en, dep, stop))
				}
			}
		}
		r.Check(len(bad) == 0, rule, fnKey(fn)+" / truth table", fmt.Sprintf("%d valuations: false once the stop flag is set or the module is not wanted", n), strings.Join(uniq(bad), "; "))
	}
	// newTask: a real task (taskFn set / ctx created) only across Ctx != nil and OnlineSoon
	if fn := c.Func("modules.(*Module).newTask"); fn == nil {
		r.Undecided(rule, "modules.(*Module).newTask", "anchor function missing")
	} else {
		k := 0
		for _, ci := range callsIn(fn, "context.WithCancel") {
			k++
			c.RequireGuards(r, rule, fmt.Sprintf("%s / create live task #%d", fnKey(fn), k), fn, ci, onlineSoon)
		}
		if k == 0 {
			r.Undecided(rule, fnKey(fn), "no context.WithCancel found")
		}
		// every return that is not the live task must return a task with canceled=true
		eachInstr(fn, func(in ssa.Instruction) {
			ret, ok := in.(*ssa.Return)
			if !ok {
				return
			}
			al, ok := retVal(ret, 0).(*ssa.Alloc)
			if !ok {
				return
			}
			canceled, hasFn := false, false
			for _, st := range allocFieldStores(al) {
				fr, _ := fieldOfAddr(st.Addr)
				if fr.Name == "canceled" {
					if b, isC := constBool(st.Val); isC && b {
						canceled = true
					}
				}
				if fr.Name == "taskFn" {
					hasFn = true
				}
			}
			if !hasFn {
				r.Check(canceled, rule, fnKey(fn)+" / refused task is cancelled", "the placeholder returned for a stopped module is created cancelled",
					"the placeholder task returned for a stopped module is not marked cancelled", c.Pos(ret.Pos()))
			}
		})
	}
	// event triggers
	for _, t := range []struct{ fn, callee string }{
		{"modules.(*Module).TriggerEvent", "modules.Module.processEventTrigger"},
		{"modules.(*Module).processEventTrigger", "modules.Module.runEventHook"},
		{"modules.(*Module).InjectEvent", "modules.Module.runEventHook"},
	} {
		fn := c.Func(t.fn)
		if fn == nil {
			r.Undecided(rule, t.fn, "anchor function missing")
			continue
		}
		sites := callsIn(fn, t.callee)
		if len(sites) == 0 {
			r.Undecided(rule, t.fn, "no call to "+t.callee)
		}
		for i, ci := range sites {
			c.RequireGuards(r, rule, fmt.Sprintf("%s / %s #%d", t.fn, descInstr(ci), i+1), fn, ci, onlineSoon)
		}
	}
	// the hook's own module must be the one tested in processEventTrigger/InjectEvent
	// runWithLocking: execution only across isActive and ctx not done
	if fn := c.Func("modules.(*Task).runWithLocking"); fn == nil {
		r.Undecided(rule, "modules.(*Task).runWithLocking", "anchor function missing")
	} else {
		var launch []ssa.Instruction
		eachInstr(fn, func(in ssa.Instruction) {
			if g, ok := in.(*ssa.Go); ok && calleeName(&g.Call) == "modules.Task.executeWithLocking" {
				launch = append(launch, in)
			}
		})
		if len(launch) == 0 {
			r.Undecided(rule, fnKey(fn), "no launch of executeWithLocking found")
		}
		notDone := selectCaseGuard("task ctx done", types.RecvOnly, isCtxDoneOf("t.ctx"))
		for i, l := range launch {
			cons := fmt.Sprintf("%s / go executeWithLocking #%d", fnKey(fn), i+1)
			c.RequireGuards(r, rule, cons, fn, l, callGuard("isActive()==true", true, "modules.Task.isActive"))
			// must not be reachable across the ctx.Done case: i.e. the path must avoid that case; check that a Done-case exists and returns
			hasDoneCheck := false
			eachInstr(fn, func(in ssa.Instruction) {
				if sel, ok := in.(*ssa.Select); ok && !sel.Blocking {
					for _, st := range sel.States {
						if st.Dir == types.RecvOnly && isCtxDoneOf("t.ctx")(st.Chan) {
							hasDoneCheck = true
							_ = notDone
						}
					}
				}
			})
			// path that takes the Done case must not reach the launch
			tested, reach := reachThroughSelectCase(fn, l, isCtxDoneOf("t.ctx"))
			r.Check(hasDoneCheck && tested && !reach, rule, cons+" / not after ctx done", "a task whose (module) context is already done is not launched",
				"a task can be launched although its context is already cancelled (module stopped)", c.Pos(l.Pos()))
		}
	}
	// isActive: canceled => false, else OnlineSoon
	if fn := c.Func("modules.(*Task).isActive"); fn == nil {
		r.Undecided(rule, "modules.(*Task).isActive", "anchor function missing")
	} else {
		var bad []string
		for bits := 0; bits < 4; bits++ {
			canc, os := bits&1 != 0, bits&2 != 0
			it := &Interp{Fn: fn, Outcome: retOutcome}
			it.Input = func(v ssa.Value) (AV, bool) {
				if fieldLoadOf(v, "modules.Task", "canceled") {
					return avBool(canc), true
				}
				if call, ok := v.(*ssa.Call); ok && calleeName(&call.Call) == "modules.Module.OnlineSoon" {
					return avBool(os), true
				}
				return AV{}, false
			}
			it.Run()
			for _, l := range outcomeLabels(it.Outcomes) {
				if l != "ret(false)" && (canc || !os) {
					bad = append(bad, fmt.Sprintf("isActive may be true with canceled=%v OnlineSoon=%v", canc, os))
				}
			}
		}
		r.Check(len(bad) == 0, rule, fnKey(fn)+" / truth table", "active only if not cancelled and the module is (soon) online", strings.Join(bad, "; "))
	}
}

// reachThroughSelectCase: can target be reached on a path that takes the select
// case whose channel satisfies pred?
func reachThroughSelectCase(fn *ssa.Function, target ssa.Instruction, pred func(ssa.Value) bool) (tested, reach bool) {
	for _, b := range fn.Blocks {
		ifi, ok := b.Instrs[len(b.Instrs)-1].(*ssa.If)
		if !ok {
			continue
		}
		bo, ok := ifi.Cond.(*ssa.BinOp)
		if !ok || bo.Op != token.EQL {
			continue
		}
		ex, ok := bo.X.(*ssa.Extract)
		if !ok {
			continue
		}
		sel, ok := ex.Tuple.(*ssa.Select)
		if !ok {
			continue
		}
		k, isC := constInt(bo.Y)
		if !isC || k < 0 || int(k) >= len(sel.States) || !pred(sel.States[k].Chan) {
			continue
		}
		tested = true
		// start from the true successor
		if ReachAvoiding(fn, b.Succs[0], target.Block(), nil) != nil {
			reach = true
		}
	}
	return tested, reach
}

func c05R6(c *Ctx, r *Report) {
	const rule = "C05-R6"
	r.SetFloor(rule, 3)
	fn := c.Func("modules.(*Module).start")
	if fn == nil {
		r.Undecided(rule, "modules.(*Module).start", "anchor function missing")
		return
	}
	var launch ssa.Instruction
	eachInstr(fn, func(in ssa.Instruction) {
		if g, ok := in.(*ssa.Go); ok {
			if cl := staticCallee(&g.Call); cl != nil && len(callsIn(cl, "modules.Module.runCtrlFnWithTimeout")) > 0 {
				launch = in
			}
		}
	})
	if launch == nil {
		r.Undecided(rule, fnKey(fn), "start routine launch not found")
		return
	}
	isNewCtx := func(in ssa.Instruction) bool {
		s, ok := in.(*ssa.Store)
		if !ok {
			return false
		}
		fr, ok := fieldOfAddr(s.Addr)
		if !ok || fr.Owner != "modules.Module" || fr.Name != "Ctx" {
			return false
		}
		ex, ok := s.Val.(*ssa.Extract)
		if !ok {
			return false
		}
		call, ok := ex.Tuple.(*ssa.Call)
		return ok && calleeName(&call.Call) == "context.WithCancel"
	}
	held := LocksHeldAt(fn)
	hasLock := func(in ssa.Instruction) bool {
		for l := range held[in] {
			if strings.HasSuffix(l, ".RWMutex") && !strings.HasPrefix(l, "R:") {
				return true
			}
		}
		return false
	}
	r.Check(MustPrecede(fn, isNewCtx, launch), rule, fnKey(fn)+" / fresh context before start routine",
		"a fresh module context is installed before the start function runs", "the start function runs with the previous (cancelled) module context")
	r.Check(MustPrecede(fn, isAboolOp("m.stopFlag", "UnSet"), launch), rule, fnKey(fn)+" / stop flag cleared before start routine",
		"the stop flag is cleared before the start function runs", "the stop flag of the previous cycle is still set while the module starts: its workers stop immediately and OnlineSoon stays false")
	eachInstr(fn, func(in ssa.Instruction) {
		if isNewCtx(in) {
			r.Check(hasLock(in), rule, fnKey(fn)+" / context replaced under module lock", "m.Ctx is replaced with the module lock held", "m.Ctx is replaced without the module lock", c.Pos(in.Pos()))
		}
	})
}

// runnerReceiver returns the access path of the receiver of the managed runner
// call that closure fn is handed to.
func runnerReceiver(fn *ssa.Function) string {
	p := fn.Parent()
	if p == nil {
		return ""
	}
	res := ""
	eachInstr(p, func(in ssa.Instruction) {
		ci, ok := in.(ssa.CallInstruction)
		if !ok {
			return
		}
		for _, a := range ci.Common().Args {
			if mc, ok := a.(*ssa.MakeClosure); ok && mc.Fn == fn && len(ci.Common().Args) > 0 {
				res = vpath(ci.Common().Args[0])
			}
		}
	})
	return res
}
