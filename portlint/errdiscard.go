package main

import (
	"fmt"
	"go/types"
	"strings"

	"golang.org/x/tools/go/ssa"
)

// A10 error discipline for named callees: the error result of a call to one
// of the targeted functions is never discarded (blank assignment, expression
// statement, or an extracted value nobody reads).

func errorResultIndex(sig *types.Signature) int {
	res := sig.Results()
	for i := res.Len() - 1; i >= 0; i-- {
		if types.Identical(res.At(i).Type(), types.Universe.Lookup("error").Type()) {
			return i
		}
	}
	return -1
}

func callSignature(cc *ssa.CallCommon) *types.Signature {
	if cc.IsInvoke() {
		sig, _ := cc.Method.Type().(*types.Signature)
		return sig
	}
	sig, _ := cc.Value.Type().Underlying().(*types.Signature)
	return sig
}

// errorDiscarded reports whether the error result of call is never read.
func errorDiscarded(in ssa.Instruction) (bool, bool) {
	ci, ok := in.(ssa.CallInstruction)
	if !ok {
		return false, false
	}
	sig := callSignature(ci.Common())
	if sig == nil {
		return false, false
	}
	idx := errorResultIndex(sig)
	if idx < 0 {
		return false, false
	}
	call, isCall := in.(*ssa.Call)
	if !isCall {
		// go f() / defer f(): the result is dropped by construction
		return true, true
	}
	refs := call.Referrers()
	if sig.Results().Len() == 1 {
		return refs == nil || len(*refs) == 0, true
	}
	for _, ref := range *refs {
		if ex, ok := ref.(*ssa.Extract); ok && ex.Index == idx {
			if rr := ex.Referrers(); rr != nil && len(*rr) > 0 {
				return false, true
			}
		}
	}
	return true, true
}

// errUseRule: in the given functions, every call to a targeted callee uses its error.
func errUseRule(c *Ctx, r *Report, rule string, fns []*ssa.Function, target func(fn *ssa.Function, cc *ssa.CallCommon) (string, bool), exempt map[string]string) int {
	n := 0
	for _, fn := range fns {
		ord := map[string]int{}
		eachInstr(fn, func(in ssa.Instruction) {
			ci, ok := in.(ssa.CallInstruction)
			if !ok {
				return
			}
			what, isT := target(fn, ci.Common())
			if !isT {
				return
			}
			disc, has := errorDiscarded(in)
			if !has {
				return
			}
			n++
			cons := ordinal(ord, fmt.Sprintf("%s / error of %s", fnKey(fn), what))
			if why, ok := exempt[fnKey(fn)+" / "+what]; ok {
				r.Trivial(rule, cons, "named exception: "+why)
				return
			}
			r.Check(!disc, rule, cons+" is used", "the error result is read (tested, returned, wrapped or reported)",
				"the error result of "+what+" is discarded: a failure of this step goes unnoticed and the operation reports success", c.Pos(in.Pos()))
			if call, isCall := in.(*ssa.Call); isCall && !disc {
				if p := errorLostOnSomePath(fn, call); p != nil {
					r.Bad(rule, cons+" is examined on every path", "the error of "+what+" is overwritten or dropped on a path before anything looks at it (e.g. a later assignment to the same variable): a failure of this step goes unnoticed: "+strings.Join(c.pathString(p), " -> "), c.Pos(in.Pos()))
				}
			}
		})
	}
	return n
}

// repoErrRuleFor: configured error discipline for one property - in the selected
// functions the error result of every call to a function of this repository
// (static callee or interface method declared in the repo) is used.
func repoErrRuleFor(rule string, floor int, sel func(c *Ctx, fn *ssa.Function) bool, exempt map[string]string) ruleFn {
	return func(c *Ctx, r *Report) {
		r.SetFloor(rule, floor)
		var fns []*ssa.Function
		for _, fn := range c.AllFuncs() {
			if sel(c, fn) {
				fns = append(fns, fn)
			}
		}
		if len(fns) == 0 {
			r.Undecided(rule, "functions", "no function selected")
			return
		}
		errUseRule(c, r, rule, fns, func(fn *ssa.Function, cc *ssa.CallCommon) (string, bool) {
			if cc.IsInvoke() {
				if p := cc.Method.Pkg(); p != nil && strings.HasPrefix(p.Path(), "github.com/safing/portbase") {
					return short(p.Path()) + "." + cc.Method.Name(), true
				}
				return "", false
			}
			callee := staticCallee(cc)
			if callee == nil || !c.isRepoFunc(callee) {
				return "", false
			}
			return calleeName(cc), true
		}, exempt)
	}
}

func inFile(c *Ctx, fn *ssa.Function, suffix string) bool {
	f := fn
	for f.Parent() != nil {
		f = f.Parent()
	}
	return strings.HasSuffix(c.Fset.Position(f.Pos()).Filename, suffix)
}

const repoErrText = "the error result of every call to a function of this repository is read (tested, returned, wrapped or reported); discards that exist today are named exceptions with their reason"
