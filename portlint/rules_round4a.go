package main

import (
	"fmt"
	"strings"

	"golang.org/x/tools/go/ssa"
)

// isFieldFuncCall: a call through the function value stored in struct field owner.name.
func isFieldFuncCall(owner, name string) func(ssa.Instruction) bool {
	return func(in ssa.Instruction) bool {
		ci, ok := in.(ssa.CallInstruction)
		if !ok || ci.Common().IsInvoke() {
			return false
		}
		_, fr, ok := fieldLoad(ci.Common().Value)
		return ok && fr.Owner == owner && fr.Name == name
	}
}

func isFieldStore(owner, name string) func(ssa.Instruction) bool {
	return func(in ssa.Instruction) bool {
		st, ok := in.(*ssa.Store)
		if !ok {
			return false
		}
		fr, ok := fieldOfAddr(st.Addr)
		return ok && fr.Owner == owner && fr.Name == name
	}
}

// c07R8: the "task finished" signal (t.cancelCtx(), which frees the queue slot)
// is given only after Task.executing was reset, with the task lock held.
func c07R8(c *Ctx, r *Report) {
	const rule = "C07-R8"
	r.SetFloor(rule, 2)
	fn := c.Func("modules.(*Task).executeWithLocking")
	if fn == nil {
		r.Undecided(rule, "modules.(*Task).executeWithLocking", "anchor function missing")
		return
	}
	isCancel := isFieldFuncCall("modules.Task", "cancelCtx")
	isReset := func(in ssa.Instruction) bool {
		if !isFieldStore("modules.Task", "executing")(in) {
			return false
		}
		b, isC := constBool(in.(*ssa.Store).Val)
		return isC && !b
	}
	n := 0
	fns := append([]*ssa.Function{fn}, fn.AnonFuncs...)
	for _, f := range fns {
		held := LocksHeldAt(f)
		eachInstr(f, func(in ssa.Instruction) {
			if !isCancel(in) {
				return
			}
			n++
			cons := fmt.Sprintf("%s / finish signal #%d", fnKey(f), n)
			r.Check(MustPrecede(f, isReset, in), rule, cons+" after executing reset",
				"every path to t.cancelCtx() has reset Task.executing before",
				"the finish signal t.cancelCtx() can be given while Task.executing is still true: the queue handler pops the next submission of this task, finds it executing and drops it", c.Pos(in.Pos()))
			r.Check(taskLockHeld(held[in]), rule, cons+" under the task lock",
				"t.lock is held at the signal", "the finish signal is given without the task lock: a concurrent submission can observe the half-finished state", c.Pos(in.Pos()))
		})
	}
	if n == 0 {
		r.Bad(rule, "modules.(*Task).executeWithLocking / finish signal", "executeWithLocking never calls t.cancelCtx(): the queue slot is not released")
	}
}

// c07R9: who may enter a task into the schedule as "overtime" (deadline of an
// already queued task: the schedule handler runs such a task directly).
func c07R9(c *Ctx, r *Report) {
	const rule = "C07-R9"
	r.SetFloor(rule, 5)
	want := map[string]bool{"modules.(*Task).prepForQueueing": true}
	ord := map[string]int{}
	for _, s := range c.CallSites("modules.Task.addToSchedule") {
		cons := ordinal(ord, fnKey(s.Fn)+" / addToSchedule(overtime)")
		args := callArgs(s.Instr.(ssa.CallInstruction).Common())
		if len(args) < 1 {
			r.Undecided(rule, cons, "call without argument")
			continue
		}
		b, isC := constBool(args[len(args)-1])
		if !isC {
			r.Undecided(rule, cons, "the overtime argument is not a constant; the table of who may schedule a task as overtime cannot be decided")
			continue
		}
		r.Check(b == want[fnKey(s.Fn)], rule, cons,
			fmt.Sprintf("overtime=%v as the table prescribes (only the max-delay deadline of a queued task is overtime)", b),
			fmt.Sprintf("overtime=%v: a task that was only scheduled/repeated is entered as overtime, so the schedule handler starts it directly - overlapping the running task and ahead of the queues", b), c.Pos(s.Instr.Pos()))
	}
	// addToSchedule only ever sets the flag to true when its parameter says so
	if fn := c.Func("modules.(*Task).addToSchedule"); fn != nil {
		for _, f := range append([]*ssa.Function{fn}, fn.AnonFuncs...) {
			eachInstr(f, func(in ssa.Instruction) {
				if !isFieldStore("modules.Task", "overtime")(in) {
					return
				}
				g := Guard{Name: "overtime param", Truthy: true, Match: func(b ssa.Value) bool { p, ok := b.(*ssa.Parameter); return ok && p.Name() == "overtime" }}
				p := ReachTargetAvoiding(f, in, []Guard{g}, nil)
				r.Check(p == nil, rule, fnKey(f)+" / overtime flag set only on request", "the store is guarded by the overtime parameter",
					"addToSchedule marks the task overtime although the caller did not ask for it", c.pathString(p)...)
			})
		}
	}
}

// c05R10: a module/task context is replaced only after the old one was
// cancelled: work that received the old context must not be left with a
// context that a later stop cannot cancel.
func c05R10(c *Ctx, r *Report) {
	const rule = "C05-R10"
	r.SetFloor(rule, 2)
	for _, t := range []struct{ owner, ctx, cancel string }{{"modules.Module", "Ctx", "cancelCtx"}, {"modules.Task", "ctx", "cancelCtx"}} {
		for _, s := range c.StoresTo(t.owner, t.ctx) {
			st := s.Instr.(*ssa.Store)
			fa := st.Addr.(*ssa.FieldAddr)
			if _, fresh := fa.X.(*ssa.Alloc); fresh {
				r.Trivial(rule, fnKey(s.Fn)+" / initial "+t.owner+"."+t.ctx, "first context of a freshly allocated object")
				continue
			}
			cons := fnKey(s.Fn) + " / " + t.owner + "." + t.ctx + " replaced only after cancelling the old context"
			isCancel := isFieldFuncCall(t.owner, t.cancel)
			nilCancel := Guard{Name: t.cancel + " == nil", Truthy: false, Match: func(b ssa.Value) bool {
				_, fr, ok := fieldLoad(b)
				return ok && fr.Owner == t.owner && fr.Name == t.cancel
			}}
			p := ReachTargetAvoiding(s.Fn, st, []Guard{nilCancel}, isCancel)
			r.Check(p == nil, rule, cons, "every path to the store has called the old cancel function (or found it nil)",
				"the context is overwritten without cancelling the previous one: work started earlier (from prep, or left from a failed start) keeps a context that stop never cancels, and stop waits out its timeout: "+strings.Join(c.pathString(p), " -> "), c.Pos(st.Pos()))
		}
	}
}

// funcsWithin: fn and all function literals nested in it.
func funcsWithin(fn *ssa.Function) []*ssa.Function {
	out := []*ssa.Function{fn}
	for _, a := range fn.AnonFuncs {
		out = append(out, funcsWithin(a)...)
	}
	return out
}

// c04R10: a whole-layer replace writes the layer field of every option on every
// path (nil or the validated value): an option whose new entry is missing or
// invalid must not keep the value of the previous layer.
func c04R10(c *Ctx, r *Report) {
	const rule = "C04-R10"
	r.SetFloor(rule, 2)
	for _, t := range []struct{ fn, field string }{{"config.ReplaceConfig", "activeValue"}, {"config.ReplaceDefaultConfig", "activeDefaultValue"}} {
		fn := c.Func(t.fn)
		if fn == nil {
			r.Undecided(rule, t.fn, "anchor function missing")
			continue
		}
		isW := isFieldStore("config.Option", t.field)
		found := false
		for _, f := range c.staticallyReachable(fn) {
			if !funcHas(f, 0, isW) {
				continue
			}
			found = true
			p := ReachFromAvoiding(f, nil, isExit, nil, isW)
			r.Check(p == nil, rule, fnKey(f)+" / Option."+t.field+" written on every path",
				"every path through the per-option step writes the layer (nil, or the validated value)",
				"the per-option step of the layer replace can finish without writing the layer: an option whose entry is missing or invalid keeps the previous layer's value instead of falling back", c.pathString(p)...)
		}
		if !found {
			r.Bad(rule, t.fn+" / Option."+t.field, "the layer replace never writes Option."+t.field)
		}
	}
}

// c14R9: handleOptionUpdate pushes the option to the config database's
// subscribers whenever asked to: no other condition decides.
func c14R9(c *Ctx, r *Report) {
	const rule = "C14-R9"
	r.SetFloor(rule, 1)
	fn := c.Func("config.handleOptionUpdate")
	if fn == nil {
		r.Undecided(rule, "config.handleOptionUpdate", "anchor function missing")
		return
	}
	noPush := Guard{Name: "push == false", Truthy: false, Match: func(b ssa.Value) bool { p, ok := b.(*ssa.Parameter); return ok && p.Name() == "push" }}
	p := ReachFromAvoiding(fn, nil, isExit, []Guard{noPush}, isCallInstrTo("config.pushUpdate"))
	r.Check(p == nil, rule, "config.handleOptionUpdate / pushUpdate whenever push is set",
		"every exit has either found push == false or called pushUpdate",
		"an option change can leave handleOptionUpdate without being pushed although push is set (another condition decides): subscribers of the config database miss the write", c.pathString(p)...)
}

// resolvedCallees: the repo functions a call instruction may invoke (static callee, or the VTA call graph's targets for interface/function-value calls).
func (c *Ctx) resolvedCallees(fn *ssa.Function, ci ssa.CallInstruction) []*ssa.Function {
	if sc := staticCallee(ci.Common()); sc != nil {
		return []*ssa.Function{sc}
	}
	var out []*ssa.Function
	if n := c.CallGraph().Nodes[fn]; n != nil {
		for _, e := range n.Out {
			if e.Site == ci && e.Callee != nil && e.Callee.Func != nil {
				out = append(out, e.Callee.Func)
			}
		}
	}
	return out
}

// mayReach: the repo functions from which an instruction satisfying pred is
// reachable through resolved calls (fixpoint over the call graph).
func (c *Ctx) mayReach(pred func(ssa.Instruction) bool) map[*ssa.Function]bool {
	set := map[*ssa.Function]bool{}
	for _, fn := range c.allFuncs {
		if funcHas(fn, 0, pred) {
			set[fn] = true
		}
	}
	for changed := true; changed; {
		changed = false
		for _, fn := range c.allFuncs {
			if set[fn] {
				continue
			}
			hit := false
			eachInstr(fn, func(in ssa.Instruction) {
				if hit {
					return
				}
				if mc, ok := in.(*ssa.MakeClosure); ok && set[mc.Fn.(*ssa.Function)] {
					hit = true
				}
				if ci, ok := in.(ssa.CallInstruction); ok {
					for _, cal := range c.resolvedCallees(fn, ci) {
						if set[cal] {
							hit = true
						}
					}
				}
			})
			if hit {
				set[fn] = true
				changed = true
			}
		}
	}
	return set
}

// c02R13: the final flush (threshold 0) writes every pending record: the only
// conditions under which flushWriteCache returns without writing are an empty
// write cache and "fill ratio strictly below the threshold".
func c02R13(c *Ctx, r *Report) {
	const rule = "C02-R13"
	r.SetFloor(rule, 2)
	fn := c.Func("database.(*Interface).flushWriteCache")
	if fn == nil {
		r.Undecided(rule, "database.(*Interface).flushWriteCache", "anchor function missing")
		return
	}
	isThr := func(v ssa.Value) bool { p, ok := v.(*ssa.Parameter); return ok && p.Name() == "percentThreshold" }
	isRatio := func(v ssa.Value) bool { return !isThr(v) }
	below := relGuards("fill ratio < threshold", isRatio, isThr, func(a, b int64) bool { return a < b })
	isLen := func(v ssa.Value) bool {
		call, ok := v.(*ssa.Call)
		return ok && calleeName(&call.Call) == "builtin.len"
	}
	empty := cmpGuards("len(writeCache) == 0", isLen, func(x int64) bool { return x <= 0 }, 0)
	isWrite := isCallInstrTo("database.Interface.PutMany")
	r.Check(funcHas(fn, 0, isWrite), rule, fnKey(fn)+" / writes through PutMany", "the write cache is written with a batch put", "flushWriteCache no longer writes the cached records to storage")
	p := ReachFromAvoiding(fn, nil, isExit, append(append([]Guard{}, below...), empty...), isWrite)
	r.Check(p == nil, rule, fnKey(fn)+" / returns without writing only when empty or strictly below the threshold",
		"every exit that skipped the write found the cache empty or the fill ratio strictly below the threshold (so threshold 0 - FlushCache - always writes)",
		"flushWriteCache can skip the write on another condition (e.g. ratio <= threshold): FlushCache (threshold 0) then leaves records of a sparsely filled write cache unwritten", c.pathString(p)...)
	// FlushCache passes 0
	if fc := c.Func("database.(*Interface).FlushCache"); fc != nil {
		for _, ci := range callsIn(fc, "database.Interface.flushWriteCache") {
			args := callArgs(ci.Common())
			v, isC := constInt(args[len(args)-1])
			r.Check(isC && v == 0, rule, fnKey(fc)+" / flushes with threshold 0", "FlushCache asks for an unconditional flush", "FlushCache passes a non-zero threshold: pending writes can stay in the cache", c.Pos(ci.Pos()))
		}
	}
}

// c02R14: once Interface.Delete marked the record deleted, nothing that may
// rewrite Meta.Deleted (expiry setters, Reset - e.g. through Options.Apply)
// runs before the record is written.
func c02R14(c *Ctx, r *Report) {
	const rule = "C02-R14"
	r.SetFloor(rule, 1)
	fn := c.Func("database.(*Interface).Delete")
	if fn == nil {
		r.Undecided(rule, "database.(*Interface).Delete", "anchor function missing")
		return
	}
	writers := c.mayReach(isFieldStore("database/record.Meta", "Deleted"))
	del := c.Func("database/record.(*Meta).Delete")
	marks := callsIn(fn, "database/record.Meta.Delete")
	if len(marks) == 0 || del == nil {
		r.Bad(rule, fnKey(fn)+" / marks the record deleted", "Interface.Delete no longer calls Meta.Delete")
		return
	}
	isStorageWrite := isCallInstrTo("database.Controller.Put", "database.Controller.PutMany")
	for i, m := range marks {
		var culprit string
		after := ReachInstr(fn, m, func(in ssa.Instruction) bool {
			ci, ok := in.(ssa.CallInstruction)
			if !ok || in == ssa.Instruction(m) || isStorageWrite(in) {
				return false
			}
			for _, cal := range c.resolvedCallees(fn, ci) {
				if cal != del && writers[cal] && short(cal.Pkg.Pkg.Path()) != "database/storage" && !strings.HasPrefix(short(cal.Pkg.Pkg.Path()), "database/storage/") {
					culprit = fnKey(cal)
					return true
				}
			}
			return false
		}, isStorageWrite)
		r.Check(after == nil, rule, fmt.Sprintf("%s / deletion mark #%d survives until the write", fnKey(fn), i+1),
			"no function that may rewrite Meta.Deleted is called after Meta.Delete()",
			"after Meta.Delete() the record passes through "+culprit+", which may overwrite Meta.Deleted (an 'always set expiry' option resets it to 0 or a negative TTL): the delete is stored as a live record", posOf(c, after))
	}
}
