package main

import (
	"fmt"
	"go/token"
	"go/types"
	"strings"

	"golang.org/x/tools/go/ssa"
)

func init() {
	register(&propDef{
		ID: "C14",
		Explanation: "Decides structural necessary conditions of subscription delivery and hook dispatch: " +
			"(R1) Controller.Put notifies subscribers exactly once, only after a storage write that returned no error, and PushUpdate notifies; injected storages do not push an update for a write that Controller.Put will notify itself (call-graph with constant propagation); " +
			"(R2) the only send on Subscription.Feed is a non-blocking select under subscriptionLock.RLock filtered by permission and query match; the only close of a feed is in Cancel, under the write lock, reachable only when the subscription was found and removed, at most once; " +
			"(R3) hook phase table (UsesPreGet->PreGet guarded by MatchesKey, UsesPostGet->PostGet and UsesPrePut->PrePut guarded by Matches), pre-get before the storage read, post-get before the validity test, pre-put before the storage write, a hook error returns before the storage operation, hook list accessed under hooksLock; " +
			"(R4) Cancel of a subscription/hook removes the receiver itself (pointer identity), registration appends under the write lock. " +
			"(R5) lock pairing over the functions of package(s) database, database/record: " + lockRuleText + ". " +
			"(R6) error discipline over the subscription, hook and controller code of package database: " + repoErrText + ". " +
			"(R7) a subscription filters with the subscribing interface's own local/internal privileges, in that order (= C03-R5); " +
			"(R8) the push function handed out by the runtime registry looks up the injected controller at push time under the registry lock (a controller captured at registration time misses a later injection); " +
			"(R9) config.handleOptionUpdate (the write path of the injected config database) calls pushUpdate on every path on which its push parameter is set; " +
			"(R10) every possibly successful return of Controller.Put - put, shadow delete or immediate delete - is preceded by notifySubscribers; " +
			"(R11) sibling agreement (A14): runPostGetHooks ~ runPrePutHooks (the record-phase hook runners hold the hook lock, filter and call alike); " +
			"(R12) the subscriber filter sees the flags the record was stored with: the generated Meta (de)serialiser reads each flag from the byte it was written to (= C08-R3, flag bytes); " +
			"NOT decided: exactly-once/in-order delivery over write histories, behaviour when the feed buffer is full.",
		Rules: []ruleFn{c14R1, c14R2, c14R3, c14R4,
			lockRuleFor("C14-R5", 20, []string{"database", "database/record"}, []string{}, map[string]string{}),
			repoErrRuleFor("C14-R6", 14, func(c *Ctx, fn *ssa.Function) bool {
				p := short(fn.Pkg.Pkg.Path())
				return p == "database" && (inFile(c, fn, "subscription.go") || inFile(c, fn, "hook.go") || inFile(c, fn, "hookbase.go") || inFile(c, fn, "controller.go"))
			}, map[string]string{}),
			borrowRule(c03R5, "C03-R5", "C14-R7", 2, nil),
			c14R8, c14R9, c14R10, func(c *Ctx, r *Report) { siblingRule(c, r, "C14-R11", sibHooks) },
			borrowRule(c08R3, "C08-R3", "C14-R12", 1, func(s string) bool { return strings.Contains(s, "flag bytes") })},
	})
}

func c14R1(c *Ctx, r *Report) {
	const rule = "C14-R1"
	r.SetFloor(rule, 5)
	fn := c.Func("database.(*Controller).Put")
	if fn == nil {
		r.Undecided(rule, "database.(*Controller).Put", "anchor function missing")
		return
	}
	isWrite := isCallInstrTo("database/storage.Interface.Put", "database/storage.Interface.Delete")
	notes := callsIn(fn, "database.Controller.notifySubscribers")
	if len(notes) == 0 {
		r.Bad(rule, fnKey(fn)+" / notify subscribers", "Controller.Put never notifies subscribers")
	}
	writeOK := Guard{Name: "storage write error == nil", Truthy: false, Match: func(b ssa.Value) bool {
		if !types.Identical(b.Type(), types.Universe.Lookup("error").Type()) {
			return false
		}
		ls := c.Leaves(b)
		if len(ls) == 0 {
			return false
		}
		for _, l := range ls {
			if _, ok := isCallTo(l, "database/storage.Interface.Put", "database/storage.Interface.Delete"); !ok {
				return false
			}
		}
		return true
	}}
	for i, n := range notes {
		cons := fmt.Sprintf("%s / notifySubscribers #%d", fnKey(fn), i+1)
		r.Check(MustPrecede(fn, isWrite, n), rule, cons+" / after the storage write", "the storage write precedes the notification on every path", "subscribers are notified before (or without) the storage write", c.Pos(n.Pos()))
		c.RequireGuards(r, rule, cons, fn, n, writeOK)
		again := ReachInstr(fn, n, isCallInstrTo("database.Controller.notifySubscribers"), nil)
		r.Check(again == nil, rule, cons+" / once", "notified at most once per write", "a write can be notified twice", posOf(c, again))
	}
	// every successful return (nil error) was notified
	eachInstr(fn, func(in ssa.Instruction) {
		ret, ok := in.(*ssa.Return)
		if !ok || !isNilConst(retVal(ret, 0)) {
			return
		}
		p := ReachTargetAvoiding(fn, ret, nil, isCallInstrTo("database.Controller.notifySubscribers"))
		r.Check(p == nil, rule, fnKey(fn)+" / success implies notification", "every successful Put notified the subscribers", "Put can return success without notifying subscribers", c.pathString(p)...)
	})
	// PushUpdate
	if pu := c.Func("database.(*Controller).PushUpdate"); pu == nil {
		r.Undecided(rule, "database.(*Controller).PushUpdate", "anchor function missing")
	} else {
		r.Check(len(callsIn(pu, "database.Controller.notifySubscribers")) > 0, rule, fnKey(pu)+" / notifies", "PushUpdate notifies subscribers", "PushUpdate does not notify subscribers")
	}
	// injected storages must not push updates for writes coming through the controller
	n := 0
	for _, f := range c.allFuncs {
		if f.Parent() != nil || f.Signature.Recv() == nil {
			continue
		}
		if f.Name() != "Put" && f.Name() != "Delete" {
			continue
		}
		pkg := short(f.Pkg.Pkg.Path())
		if strings.HasPrefix(pkg, "database") {
			continue
		}
		// is it a storage.Interface implementation? (signature check by name/params)
		sig := f.Signature
		if f.Name() == "Put" && !(sig.Params().Len() == 1 && strings.HasSuffix(sig.Params().At(0).Type().String(), "record.Record") && sig.Results().Len() == 2) {
			continue
		}
		if f.Name() == "Delete" && !(sig.Params().Len() == 1 && sig.Params().At(0).Type().String() == "string" && sig.Results().Len() == 1) {
			continue
		}
		n++
		found, trail := c.ReachesCallConst(f, nil, 4, "database.Controller.PushUpdate")
		r.Check(!found, rule, fnKey(f)+" / no own push for controller writes", "the storage's write path does not call Controller.PushUpdate (Controller.Put notifies)",
			"the injected storage pushes an update for a write that Controller.Put also notifies: subscribers receive it twice", trail...)
	}
	if n < 3 {
		r.Undecided(rule, "injected storage write paths", fmt.Sprintf("found %d injected Put/Delete implementations (expected >= 3)", n))
	}
}

func c14R2(c *Ctx, r *Report) { subscriptionFeedRule(c, r, "C14-R2") }

// subscriptionFeedRule is shared by C14-R2 and C13-R4.
func subscriptionFeedRule(c *Ctx, r *Report, rule string) {
	r.SetFloor(rule, 6)
	sends := c.sendsOnField("database.Subscription", "Feed")
	if len(sends) != 1 {
		r.Check(false, rule, "send Subscription.Feed sites", "", fmt.Sprintf("expected exactly one send site on Subscription.Feed, found %d", len(sends)))
	}
	for i, s := range sends {
		cons := fmt.Sprintf("%s / send Subscription.Feed #%d", fnKey(s.Fn), i+1)
		sel, isSel := s.Instr.(*ssa.Select)
		r.Check(isSel && !sel.Blocking, rule, cons+" / non-blocking", "delivery is a non-blocking select", "delivery can block the writer (while holding the subscription lock)", c.Pos(s.Instr.Pos()))
		held := LocksHeldAt(s.Fn)[s.Instr]
		okLock := heldLock(held, ".subscriptionLock", true)
		r.Check(okLock, rule, cons+" / under subscriptionLock", "sent with the subscription (read) lock held, so Cancel's close cannot interleave", "the feed is sent to without holding subscriptionLock: a concurrent Cancel closes it and the send panics (held: "+setString(held)+")", c.Pos(s.Instr.Pos()))
		match := Guard{Name: "query matches", Truthy: true, Match: func(b ssa.Value) bool {
			_, ok := isCallTo(b, "database/query.Query.Matches")
			return ok
		}}
		c.RequireGuards(r, rule, cons, s.Fn, s.Instr, match)
		// the subscription sent to is an element of c.subscriptions loaded under the lock
		var ch ssa.Value
		if isSel {
			ch = sel.States[s.State].Chan
		}
		if u, ok := ch.(*ssa.UnOp); ok {
			if fa, ok := u.X.(*ssa.FieldAddr); ok {
				fromList := false
				for _, l := range c.Leaves(fa.X) {
					if u2, ok := l.(*ssa.UnOp); ok {
						if ia, ok := u2.X.(*ssa.IndexAddr); ok && strings.HasSuffix(vpath(ia.X), "c.subscriptions") {
							fromList = true
							// the slice itself must be loaded while the lock is held
							if ld, ok := ia.X.(*ssa.UnOp); ok {
								hl := LocksHeldAt(s.Fn)[ld]
								r.Check(heldLock(hl, ".subscriptionLock", true), rule, cons+" / list read under lock", "c.subscriptions is read with the lock held", "c.subscriptions is read without the lock")
							}
						}
					}
				}
				r.Check(fromList, rule, cons+" / receiver is a registered subscription", "the feed belongs to an element of c.subscriptions", "the feed sent to does not come from the live subscription list (e.g. a stale snapshot)")
			}
		}
	}
	// closes of Subscription.Feed
	k := 0
	for _, fn := range c.allFuncs {
		eachInstr(fn, func(in ssa.Instruction) {
			ci, ok := in.(ssa.CallInstruction)
			if !ok || calleeName(ci.Common()) != "builtin.close" {
				return
			}
			u, ok := ci.Common().Args[0].(*ssa.UnOp)
			if !ok {
				return
			}
			fr, ok := fieldOfAddr(u.X)
			if !ok || fr.Owner != "database.Subscription" || fr.Name != "Feed" {
				return
			}
			k++
			cons := fmt.Sprintf("%s / close Subscription.Feed #%d", fnKey(fn), k)
			if fnKey(fn) != "database.(*Subscription).Cancel" {
				r.Bad(rule, cons, "a subscription feed is closed outside Subscription.Cancel", c.Pos(in.Pos()))
				return
			}
			held := LocksHeldAt(fn)[in]
			r.Check(heldLock(held, ".subscriptionLock", false), rule, cons+" / under write lock", "closed with subscriptionLock write-held", "the feed is closed without the subscription write lock: a concurrent notify can send on the closed channel", c.Pos(in.Pos()))
			// only when found and removed: the removal store precedes, and the close is guarded by the identity match
			isRemoval := func(x ssa.Instruction) bool {
				st, ok := x.(*ssa.Store)
				if !ok {
					return false
				}
				fr, ok := fieldOfAddr(st.Addr)
				return ok && fr.Owner == "database.Controller" && fr.Name == "subscriptions"
			}
			r.Check(MustPrecede(fn, isRemoval, in), rule, cons+" / after removal", "the subscription is removed from the list before its feed is closed", "the feed is closed without removing the subscription from the list first: the next matching write sends on a closed channel", c.Pos(in.Pos()))
			c.RequireGuards(r, rule, cons, fn, in, identityGuard(fn))
			again := ReachInstr(fn, in, func(x ssa.Instruction) bool {
				c2, ok := x.(ssa.CallInstruction)
				return ok && calleeName(c2.Common()) == "builtin.close"
			}, nil)
			r.Check(again == nil, rule, cons+" / once", "no second close on any path", "the feed can be closed twice in one Cancel")
			// the feed closed is the receiver's
			r.Check(vpath(u.X) == "s.Feed", rule, cons+" / own feed", "closes the receiver's own feed", "closes "+vpath(u.X)+" instead of the receiver's feed")
		})
	}
	if k == 0 {
		r.Bad(rule, "database.(*Subscription).Cancel / close Subscription.Feed", "Cancel never closes the feed")
	}
}

// identityGuard: the loop element equals the receiver (pointer identity).
func identityGuard(fn *ssa.Function) Guard {
	recv := fn.Params[0]
	return Guard{Name: "list element == receiver", Truthy: true, Match: func(b ssa.Value) bool {
		bo, ok := b.(*ssa.BinOp)
		if !ok || bo.Op != token.EQL {
			return false
		}
		return bo.X == ssa.Value(recv) || bo.Y == ssa.Value(recv)
	}}
}

func c14R3(c *Ctx, r *Report) {
	const rule = "C14-R3"
	r.SetFloor(rule, 12)
	type phase struct {
		fn, uses, call, match string
	}
	for _, p := range []phase{
		{"database.(*Controller).runPreGetHooks", "UsesPreGet", "PreGet", "database/query.Query.MatchesKey"},
		{"database.(*Controller).runPostGetHooks", "UsesPostGet", "PostGet", "database/query.Query.Matches"},
		{"database.(*Controller).runPrePutHooks", "UsesPrePut", "PrePut", "database/query.Query.Matches"},
	} {
		fn := c.Func(p.fn)
		if fn == nil {
			r.Undecided(rule, p.fn, "anchor function missing")
			continue
		}
		var calls []ssa.Instruction
		eachInstr(fn, func(in ssa.Instruction) {
			if ci, ok := in.(*ssa.Call); ok && ci.Call.IsInvoke() && ci.Call.Method.Name() == p.call && objName(ci.Call.Method) == "database.Hook."+p.call {
				calls = append(calls, in)
			}
			if ci, ok := in.(*ssa.Call); ok && ci.Call.IsInvoke() && objName(ci.Call.Method) != "database.Hook."+p.call {
				// a different hook method invoked from this phase?
				n := ci.Call.Method.Name()
				if (n == "PreGet" || n == "PostGet" || n == "PrePut") && strings.HasPrefix(objName(ci.Call.Method), "database.Hook.") {
					r.Bad(rule, p.fn+" / wrong phase method "+n, "phase "+p.call+" invokes Hook."+n, c.Pos(in.Pos()))
				}
			}
		})
		if len(calls) == 0 {
			r.Bad(rule, p.fn+" / call Hook."+p.call, "the phase never calls Hook."+p.call)
			continue
		}
		uses := Guard{Name: "hook." + p.uses + "()==true", Truthy: true, Match: func(b ssa.Value) bool {
			call, ok := b.(*ssa.Call)
			return ok && call.Call.IsInvoke() && objName(call.Call.Method) == "database.Hook."+p.uses
		}}
		match := callGuard("hook query "+strings.TrimPrefix(p.match, "database/query.Query.")+"==true", true, p.match)
		for i, ci := range calls {
			cons := fmt.Sprintf("%s / call Hook.%s #%d", p.fn, p.call, i+1)
			c.RequireGuards(r, rule, cons, fn, ci, uses, match)
			held := LocksHeldAt(fn)[ci]
			r.Check(heldLock(held, ".hooksLock", true), rule, cons+" / under hooksLock", "hook list is walked with hooksLock held", "hooks are called without hooksLock (races with Cancel)")
			// a hook error is returned
			call := ci.(*ssa.Call)
			var errV ssa.Value
			for _, ref := range *call.Referrers() {
				if ex, ok := ref.(*ssa.Extract); ok && types.Identical(ex.Type(), types.Universe.Lookup("error").Type()) {
					errV = ex
				}
			}
			if types.Identical(call.Type(), types.Universe.Lookup("error").Type()) {
				errV = call
			}
			okErr := false
			if errV != nil {
				eachInstr(fn, func(in ssa.Instruction) {
					if ret, ok := in.(*ssa.Return); ok {
						last := retVal(ret, len(ret.Results)-1)
						for _, l := range c.Leaves(last) {
							if l == errV {
								okErr = true
							}
						}
					}
				})
			}
			r.Check(okErr, rule, cons+" / veto propagates", "the hook's error is returned to the caller", "the hook's error is dropped: a veto does not stop the operation")
		}
	}
	// ordering inside Controller.Get / Put
	if g := c.Func("database.(*Controller).Get"); g != nil {
		for _, sg := range callsIn(g, "database/storage.Interface.Get") {
			r.Check(MustPrecede(g, isCallInstrTo("database.Controller.runPreGetHooks"), sg), rule, fnKey(g)+" / pre-get hooks before the storage read", "runPreGetHooks precedes storage.Get", "the storage is read before the pre-get hooks ran")
			preOK := Guard{Name: "pre-get hooks returned nil", Truthy: false, Match: func(b ssa.Value) bool {
				_, ok := isCallTo(b, "database.Controller.runPreGetHooks")
				return ok
			}}
			c.RequireGuards(r, rule, fnKey(g)+" / storage read", g, sg, preOK)
		}
		for _, cv := range callsIn(g, fnCheckValidity) {
			r.Check(MustPrecede(g, isCallInstrTo("database.Controller.runPostGetHooks"), cv), rule, fnKey(g)+" / post-get hooks before the validity test", "runPostGetHooks precedes CheckValidity", "validity is tested before post-get hooks may replace the record")
		}
		// a record is returned only across post-get hooks err==nil
		postOK := errNilGuard("post-get hooks returned nil", "database.Controller.runPostGetHooks")
		eachInstr(g, func(in ssa.Instruction) {
			if ret, ok := in.(*ssa.Return); ok && !isNilConst(retVal(ret, 0)) {
				c.RequireGuards(r, rule, fnKey(g)+" / return record", g, ret, postOK)
			}
		})
	} else {
		r.Undecided(rule, "database.(*Controller).Get", "anchor function missing")
	}
	if p := c.Func("database.(*Controller).Put"); p != nil {
		preOK := errNilGuard("pre-put hooks returned nil", "database.Controller.runPrePutHooks")
		for i, w := range callsIn(p, "database/storage.Interface.Put", "database/storage.Interface.Delete") {
			cons := fmt.Sprintf("%s / storage write #%d", fnKey(p), i+1)
			r.Check(MustPrecede(p, isCallInstrTo("database.Controller.runPrePutHooks"), w), rule, cons+" / after pre-put hooks", "runPrePutHooks precedes the storage write", "the storage is written before the pre-put hooks ran")
			c.RequireGuards(r, rule, cons, p, w, preOK)
			// the record written is the one the hooks returned
			if calleeName(w.Common()) == "database/storage.Interface.Put" {
				o := c.Origins(callArgs(w.Common())[1])
				r.Check(hasOrigin(o, "call:database.Controller.runPrePutHooks#0"), rule, cons+" / hooks' record is written", "the (possibly replaced) record returned by the hooks is stored", fmt.Sprintf("the record stored comes from %v, not from the pre-put hooks", o))
			}
		}
	}
}

func c14R4(c *Ctx, r *Report) {
	const rule = "C14-R4"
	r.SetFloor(rule, 4)
	for _, t := range []struct{ fn, field, lock string }{
		{"database.(*Subscription).Cancel", "subscriptions", ".subscriptionLock"},
		{"database.(*RegisteredHook).Cancel", "hooks", ".hooksLock"},
	} {
		fn := c.Func(t.fn)
		if fn == nil {
			r.Undecided(rule, t.fn, "anchor function missing")
			continue
		}
		k := 0
		eachInstr(fn, func(in ssa.Instruction) {
			st, ok := in.(*ssa.Store)
			if !ok {
				return
			}
			fr, ok := fieldOfAddr(st.Addr)
			if !ok || fr.Owner != "database.Controller" || fr.Name != t.field {
				return
			}
			k++
			cons := fmt.Sprintf("%s / remove from Controller.%s #%d", t.fn, t.field, k)
			c.RequireGuards(r, rule, cons, fn, st, identityGuard(fn))
			held := LocksHeldAt(fn)[st]
			r.Check(heldLock(held, t.lock, false), rule, cons+" / under write lock", "removed with the write lock held", "list modified without the write lock")
		})
		if k == 0 {
			r.Bad(rule, t.fn+" / remove from Controller."+t.field, "Cancel never removes the receiver from the controller's list")
		}
	}
	// registration appends under the write lock
	for _, t := range []struct{ fn, field, lock string }{
		{"database.(*Controller).addSubscription", "subscriptions", ".subscriptionLock"},
		{"database.RegisterHook", "hooks", ".hooksLock"},
	} {
		fn := c.Func(t.fn)
		if fn == nil {
			r.Undecided(rule, t.fn, "anchor function missing")
			continue
		}
		ok := false
		eachInstr(fn, func(in ssa.Instruction) {
			if st, isSt := in.(*ssa.Store); isSt {
				if fr, isF := fieldOfAddr(st.Addr); isF && fr.Owner == "database.Controller" && fr.Name == t.field {
					if heldLock(LocksHeldAt(fn)[st], t.lock, false) {
						ok = true
					}
				}
			}
		})
		r.Check(ok, rule, t.fn+" / append under write lock", "registered under the write lock", "registration does not append to Controller."+t.field+" under the write lock")
	}
}

func c14R8(c *Ctx, r *Report) {
	const rule = "C14-R8"
	r.SetFloor(rule, 2)
	fn := c.Func("runtime.(*Registry).Register")
	if fn == nil {
		r.Undecided(rule, "runtime.(*Registry).Register", "anchor function missing")
		return
	}
	n := 0
	for _, cl := range fn.AnonFuncs {
		held := LocksHeldAt(cl)
		for _, ci := range callsIn(cl, "database.Controller.PushUpdate") {
			n++
			recv := unwrapConv(ci.Common().Args[0])
			fresh := false
			if ld, ok := recv.(*ssa.UnOp); ok {
				if fr, ok := fieldOfAddr(ld.X); ok && fr.Owner == "runtime.Registry" && fr.Name == "dbController" && ld.Parent() == cl {
					fresh = true
				}
			}
			r.Check(fresh, rule, fnKey(cl)+" / controller looked up at push time", "PushUpdate is called on r.dbController as read inside the push function",
				"the push function uses a controller value obtained elsewhere ("+strings.Join(c.Origins(recv), "+")+"): a provider registered before InjectAsDatabase keeps pushing to the old (nil) controller and its updates never reach subscribers", c.Pos(ci.Pos()))
			r.Check(heldLock(held[ci], "r.l", true), rule, fnKey(cl)+" / registry lock held while pushing", "under r.l", "the controller is read without the registry lock", c.Pos(ci.Pos()))
		}
	}
	if n == 0 {
		r.Undecided(rule, fnKey(fn), "no PushUpdate call in the returned push function")
	}
}
