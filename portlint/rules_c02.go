package main

import (
	"fmt"
	"go/types"
	"sort"
	"strings"

	"golang.org/x/tools/go/ssa"
)

func init() {
	register(&propDef{
		ID: "C02",
		Explanation: "Decides structural necessary conditions of 'every backend behaves like one key->record map': " +
			"(R1) Iterator.Finish publishes the error (under errLock) before it closes the result stream; " +
			"(R2) every query producer calls Finish exactly once on every exit that is not a consumer cancel, and passes the iteration's own error; " +
			"(R3) every send on Iterator.Next in the four storage backends is reachable only across key-prefix, CheckValidity and MatchesRecord tests (sibling agreement), Controller.Get/GetMeta return only across CheckValidity; " +
			"(R4) the read cache cannot serve deleted/expired records: Delete evicts (or the cache path validates), cache entries get the relative expiry as TTL, FlushCache flushes exactly when a write cache exists; " +
			"(R5) MaintainRecordStates decision tables (hashmap, bbolt) by finite-valuation propagation over ordering representatives: physical removal only of invisible records, shadow-marking only of expired undeleted records, and Controller.Put's delete/put table; " +
			"(R6) purge loops delete only behind prefix/not-deleted/match tests and terminate only at end of data, prefix end or cancellation (a batch boundary does not end the purge); (R7) siblings map 'absent' alike; (R8) the directory walk of the file-tree backend starts at a root that contains every file whose path extends the query prefix (the prefix path itself only when it was tested to be a directory, otherwise its parent or the base path), the callback's key-prefix filter being part of R3. " +
			"(R9) lock pairing over the functions of package(s) database/storage/hashmap, database/storage/bbolt, database/storage/badger, database/storage/fstree, database/storage/sinkhole, database/storage, database/iterator: " + lockRuleText + ". " +
			"(R10) no error returned by a storage backend, the controller or the database interface is discarded by code of the database packages (named exceptions: best-effort registry save). " +
			"(R11) the read cache stores an entry without expiry only for records that have none (ttl < 0); a remaining lifetime of 0 still goes through SetWithExpire. " +
			"(R12) decision tables of the metadata state functions over sign/ordering representatives: CheckValidity (invisible iff deleted or the absolute expiry lies before now), IsDeleted, GetRelativeExpiry (-1 without expiry, else the non-negative remainder), Update (relative expiry re-armed from now, creation time set once), SetRelativateExpiry (only non-negative TTLs). " +
			"(R13) flushWriteCache skips the write only when the write cache is empty or its fill ratio is strictly below the threshold, and FlushCache passes threshold 0 - so the final flush always writes; " +
			"(R14) after Interface.Delete marked the record deleted (Meta.Delete) no function that may rewrite Meta.Deleted - the expiry setters reached through Options.Apply, Reset - is called before the record is written; " +
			"(R15) errors turned into success (A13) over the database layer: wherever an error is tested and the function can still return success the site is in a table with the exact tolerated condition (ErrNotFound for writes of new records, ErrNotFound/ErrPermissionDenied for Exists, fs.ErrNotExist / badger.ErrKeyNotFound for absent files and keys, the retried file write) - any other error class ending in success is reported; " +
			"(R16) sibling agreement (A14): the paired functions consist of the same operations - calls with their constant arguments, comparisons (canonical under negation and operand order), field reads/writes, channel operations, returns, each with the number of conditions it depends on - once the instance-specific names are mapped onto each other; logging is ignored, named differences are listed in the table: Interface.Put ~ PutNew (PutNew adds the metadata reset), Controller.Maintain ~ MaintainThorough, and each accessor method of JSON-held-as-string ~ JSON-held-as-bytes (a query must match serialized data identically however it is held); " +
			"(R17) the evict handler deletes a to-be-written record from the write cache before it writes it through (a copy left behind is rewritten by the next flush); " +
			"(R18) shared rules: the writer/reader tables of the stored-record format incl. the 'no data only for deleted records' predicate of both Marshal implementations (= C08-R3), and the controller passes the caller's local/internal scopes to the storage in that order (= C03-R3); " +
			"NOT decided: equivalence with a reference map over operation histories, operator semantics through the accessors, physical state after crashes.",
		Rules: []ruleFn{c02R1, c02R2, c02R3, c02R4, c02R5, c02R6, c02R7, c02R8,
			lockRuleFor("C02-R9", 9, []string{"database/storage/hashmap", "database/storage/bbolt", "database/storage/badger", "database/storage/fstree", "database/storage/sinkhole", "database/storage", "database/iterator"}, []string{}, map[string]string{}),
			c02R10, c02R11, c02R12, c02R13, c02R14, c02R15, c02R17,
			borrowRule(c08R3, "C08-R3", "C02-R18", 3, nil), borrowRule(c03R3, "C03-R3", "C02-R18", 4, func(s string) bool { return strings.Contains(s, "Controller") || strings.Contains(s, "Query") }), func(c *Ctx, r *Report) { siblingRule(c, r, "C02-R16", append(append([]siblingPair{}, sibDatabase...), sibAccessor...)) }},
	})
}

const fnFinish = "database/iterator.Iterator.Finish"

func c02R1(c *Ctx, r *Report) {
	const rule = "C02-R1"
	r.SetFloor(rule, 2)
	fn := c.Func("database/iterator.(*Iterator).Finish")
	if fn == nil {
		r.Undecided(rule, "database/iterator.(*Iterator).Finish", "anchor function missing")
		return
	}
	isErrStore := func(in ssa.Instruction) bool {
		st, ok := in.(*ssa.Store)
		if !ok {
			return false
		}
		fr, ok := fieldOfAddr(st.Addr)
		return ok && fr.Owner == "database/iterator.Iterator" && fr.Name == "err" && onlyOrigins(c.Origins(st.Val), "param:err")
	}
	var closes []ssa.Instruction
	eachInstr(fn, func(in ssa.Instruction) {
		if ci, ok := in.(ssa.CallInstruction); ok && calleeName(ci.Common()) == "builtin.close" {
			if _, isDefer := in.(*ssa.Defer); isDefer {
				return
			}
			closes = append(closes, in)
		}
	})
	if len(closes) == 0 {
		r.Bad(rule, fnKey(fn)+" / close(Next)", "Finish never closes the result stream")
		return
	}
	for _, cl := range closes {
		p := vpath(cl.(ssa.CallInstruction).Common().Args[0])
		r.Check(MustPrecede(fn, isErrStore, cl), rule, fmt.Sprintf("%s / err stored before close(%s)", fnKey(fn), p),
			"the error is stored before the channel is closed on every path", "the stream is closed before the error is stored: a consumer that drained the stream can read Err()==nil although the query failed", c.Pos(cl.Pos()))
	}
	held := LocksHeldAt(fn)
	eachInstr(fn, func(in ssa.Instruction) {
		if isErrStore(in) {
			r.Check(held[in]["it.errLock"], rule, fnKey(fn)+" / err stored under errLock", "stored with errLock held", "it.err stored without errLock", c.Pos(in.Pos()))
		}
	})
}

func doneCaseGuard() Guard {
	return selectCaseGuard("consumer cancelled (<-Done)", types.RecvOnly, func(ch ssa.Value) bool {
		u, ok := ch.(*ssa.UnOp)
		if !ok {
			return false
		}
		fr, ok := fieldOfAddr(u.X)
		return ok && fr.Owner == "database/iterator.Iterator" && fr.Name == "Done"
	})
}

func c02R2(c *Ctx, r *Report) {
	const rule = "C02-R2"
	r.SetFloor(rule, 7)
	isFinish := isCallInstrTo(fnFinish)
	iterCalls := []string{"go.etcd.io/bbolt.DB.View", "github.com/dgraph-io/badger.DB.View", "path/filepath.Walk", "golang.org/x/sync/errgroup.Group.Wait"}
	n := 0
	for _, fn := range c.allFuncs {
		if short(fn.Pkg.Pkg.Path()) == "database/iterator" {
			continue
		}
		fins := callsIn(fn, fnFinish)
		if len(fins) == 0 {
			continue
		}
		n++
		name := fnKey(fn)
		// every return preceded by a Finish unless reached through the Done case
		k := 0
		eachInstr(fn, func(in ssa.Instruction) {
			ret, ok := in.(*ssa.Return)
			if !ok {
				return
			}
			k++
			path := ReachTargetAvoiding(fn, ret, []Guard{doneCaseGuard()}, isFinish)
			r.Check(path == nil, rule, fmt.Sprintf("%s / exit #%d finishes the iterator", name, k),
				"every path to this exit calls Finish (or left because the consumer cancelled)",
				"the producer can exit without calling Finish: the consumer blocks forever / never learns the error", c.pathString(path)...)
		})
		// not twice
		for i, f := range fins {
			again := ReachInstr(fn, f, isFinish, nil)
			r.Check(again == nil, rule, fmt.Sprintf("%s / Finish #%d not repeated", name, i+1), "no second Finish on any path", "Finish can be called twice (close of closed channel)", posOf(c, again))
		}
		// the iteration's error is what is passed
		var iterErr *ssa.Call
		eachInstr(fn, func(in ssa.Instruction) {
			if call, ok := in.(*ssa.Call); ok {
				cn := calleeName(&call.Call)
				for _, ic := range iterCalls {
					if cn == ic {
						iterErr = call
					}
				}
			}
		})
		if iterErr != nil {
			ok := false
			for _, f := range fins {
				for _, l := range c.Leaves(f.Common().Args[1]) {
					if l == ssa.Value(iterErr) {
						ok = true
					}
				}
			}
			r.Check(ok, rule, name+" / Finish receives the iteration error", "Finish is given the error result of "+calleeName(&iterErr.Call),
				"the error returned by "+calleeName(&iterErr.Call)+" is not what Finish receives: storage errors during the query are swallowed", c.Pos(iterErr.Pos()))
		} else {
			// loop-local error variable: at least one Finish argument is not the nil constant if the function has an error-producing path
			hasErr := false
			for _, f := range fins {
				for _, l := range c.Leaves(f.Common().Args[1]) {
					if !isNilConst(l) {
						hasErr = true
					}
				}
			}
			makesErr := funcHas(fn, 0, func(in ssa.Instruction) bool {
				call, ok := in.(*ssa.Call)
				return ok && (calleeName(&call.Call) == "errors.New" || calleeName(&call.Call) == "fmt.Errorf" || calleeName(&call.Call) == "config.Option.Export")
			})
			if makesErr {
				r.Check(hasErr, rule, name+" / Finish receives the iteration error", "an error produced during the iteration reaches Finish",
					"the producer creates errors but always finishes with nil")
			} else {
				r.Trivial(rule, name+" / Finish receives the iteration error", "the producer has no error-producing step")
			}
		}
	}
	if n < 7 {
		r.Undecided(rule, "instance-floor", fmt.Sprintf("found %d query producers (expected >= 7)", n))
	}
}

func validityGuard() Guard { return callGuard("CheckValidity()==true", true, fnCheckValidity) }

func c02R3(c *Ctx, r *Report) {
	const rule = "C02-R3"
	r.SetFloor(rule, 20)
	prefix := Guard{Name: "key has the query's prefix", Truthy: true, Match: func(b ssa.Value) bool {
		_, ok := isCallTo(b, "database/query.Query.MatchesKey", "bytes.HasPrefix", "github.com/dgraph-io/badger.Iterator.ValidForPrefix", "database/query.Query.Matches")
		return ok
	}}
	matches := Guard{Name: "MatchesRecord()==true", Truthy: true, Match: func(b ssa.Value) bool {
		_, ok := isCallTo(b, "database/query.Query.MatchesRecord", "database/query.Query.Matches")
		return ok
	}}
	ord := map[string]int{}
	for _, s := range c.sendsOnField("database/iterator.Iterator", "Next") {
		pkg := short(s.Fn.Pkg.Pkg.Path())
		if !strings.HasPrefix(pkg, "database/storage/") {
			continue
		}
		cons := ordinal(ord, fmt.Sprintf("%s / send Iterator.Next", fnKey(s.Fn)))
		c.RequireGuards(r, rule, cons, s.Fn, s.Instr, prefix, validityGuard(), matches)
	}
	// the prefix tested is the query's prefix
	for _, fn := range c.allFuncs {
		if !strings.HasPrefix(short(fn.Pkg.Pkg.Path()), "database/storage/") {
			continue
		}
		top := topFunc(fn)
		if top.Name() != "queryExecutor" && top.Name() != "Purge" {
			continue
		}
		for i, ci := range callsIn(fn, "bytes.HasPrefix", "github.com/dgraph-io/badger.Iterator.ValidForPrefix") {
			args := ci.Common().Args
			pa := args[len(args)-1]
			o := c.Origins(pa)
			ok := hasOrigin(o, "call:database/query.Query.DatabaseKeyPrefix")
			r.Check(ok, rule, fmt.Sprintf("%s / prefix test #%d uses the query's key prefix", fnKey(fn), i+1), "prefix = q.DatabaseKeyPrefix()", fmt.Sprintf("the prefix compared against comes from %v", o), c.Pos(ci.Pos()))
		}
	}
	for _, name := range []string{"database.(*Controller).Get", "database.(*Controller).GetMeta"} {
		fn := c.Func(name)
		if fn == nil {
			r.Undecided(rule, name, "anchor function missing")
			continue
		}
		k := 0
		eachInstr(fn, func(in ssa.Instruction) {
			ret, ok := in.(*ssa.Return)
			if !ok || isNilConst(retVal(ret, 0)) {
				return
			}
			k++
			c.RequireGuards(r, rule, fmt.Sprintf("%s / return record #%d", name, k), fn, ret, validityGuard())
		})
		if k == 0 {
			r.Undecided(rule, name, "no record-returning exit found")
		}
	}
}

func c02R4(c *Ctx, r *Report) {
	const rule = "C02-R4"
	r.SetFloor(rule, 4)
	// (a) Delete evicts, or the cache path validates
	del := c.Func("database.(*Interface).Delete")
	gr := c.Func("database.(*Interface).getRecord")
	if del == nil || gr == nil {
		r.Undecided(rule, "database.(*Interface).Delete/getRecord", "anchor function missing")
		return
	}
	isEvict := func(in ssa.Instruction) bool {
		ci, ok := in.(*ssa.Call)
		if !ok {
			return false
		}
		switch calleeName(&ci.Call) {
		case "database.Interface.updateCache":
			b, isC := constBool(ci.Call.Args[3])
			return isC && b
		case "github.com/bluele/gcache.Cache.Remove":
			return true
		}
		return false
	}
	evicts := true
	for _, p := range callsIn(del, "database.Controller.Put") {
		if !MustPrecede(del, isEvict, p) {
			evicts = false
		}
	}
	// cache path validates?
	cacheValidates := false
	eachInstr(gr, func(in ssa.Instruction) {
		ret, ok := in.(*ssa.Return)
		if !ok || isNilConst(retVal(ret, 0)) {
			return
		}
		if hasOrigin(c.Origins(retVal(ret, 0)), "call:database.Interface.checkCache") && !hasOrigin(c.Origins(retVal(ret, 0)), "call:database.Controller.Get") {
			if ReachAvoiding(gr, nil, ret.Block(), []Guard{validityGuard()}) == nil {
				cacheValidates = true
			}
		}
	})
	r.Check(evicts || cacheValidates, rule, "database.(*Interface).Delete / deleted record leaves the read cache",
		map[bool]string{true: "Delete removes the record from the cache before writing", false: "the cache path of getRecord checks validity"}[evicts],
		"Delete neither evicts the record from the read cache nor does the cache path check validity: Get after Delete returns the deleted record")
	// (b) TTL of cache entries = relative expiry
	ord := map[string]int{}
	for _, s := range c.CallSites("database.Interface.updateCache") {
		ci := s.Instr.(ssa.CallInstruction)
		if b, isC := constBool(ci.Common().Args[3]); isC && b {
			continue // removal: ttl irrelevant
		}
		cons := ordinal(ord, fmt.Sprintf("%s / updateCache ttl", fnKey(s.Fn)))
		o := c.Origins(ci.Common().Args[4])
		ok := onlyOrigins(o, "call:database/record.Meta.GetRelativeExpiry#0")
		r.Check(ok, rule, cons, "cache TTL is the record's relative expiry", fmt.Sprintf("cache TTL comes from %v, not from Meta.GetRelativeExpiry: expired records keep being served from the cache", o), c.Pos(ci.Pos()))
	}
	// (c) updateCache: remove => cache.Remove and write-through; ttl>=0 => SetWithExpire
	if uc := c.Func("database.(*Interface).updateCache"); uc != nil {
		removeParam := uc.Params[3]
		var bad []string
		for _, rm := range []bool{false, true} {
			it := &Interp{Fn: uc}
			it.Input = func(v ssa.Value) (AV, bool) {
				if v == ssa.Value(removeParam) {
					return avBool(rm), true
				}
				if fieldLoadOf(v, "database.Interface", "cache") {
					return AV{K: KNonNil}, true
				}
				return AV{}, false
			}
			it.Outcome = func(in ssa.Instruction, ev func(ssa.Value) AV) string {
				if ci, ok := in.(*ssa.Call); ok {
					switch calleeName(&ci.Call) {
					case "github.com/bluele/gcache.Cache.Remove":
						return "remove"
					case "github.com/bluele/gcache.Cache.Set", "github.com/bluele/gcache.Cache.SetWithExpire":
						return "set"
					}
				}
				if ret, ok := in.(*ssa.Return); ok {
					return "ret(" + ev(retVal(ret, 0)).String() + ")"
				}
				return ""
			}
			it.Run()
			ls := outcomeLabels(it.Outcomes)
			has := func(x string) bool {
				for _, l := range ls {
					if l == x {
						return true
					}
				}
				return false
			}
			if rm && (!has("remove") || has("set") || has("ret(true)")) {
				bad = append(bad, fmt.Sprintf("remove=true -> %v (expected cache removal, no set, write-through)", ls))
			}
			if !rm && has("remove") {
				bad = append(bad, fmt.Sprintf("remove=false -> %v", ls))
			}
		}
		r.Check(len(bad) == 0, rule, fnKey(uc)+" / remove table", "remove=true evicts and lets the write through; remove=false never evicts", strings.Join(bad, "; "))
	}
	// (d) FlushCache
	if fc := c.Func("database.(*Interface).FlushCache"); fc != nil {
		var bad []string
		for _, delayed := range []string{"", "db"} {
			it := &Interp{Fn: fc}
			it.Input = func(v ssa.Value) (AV, bool) {
				if fieldLoadOf(v, "database.Options", "DelayCachedWrites") {
					return avStr(delayed), true
				}
				return AV{}, false
			}
			it.Outcome = func(in ssa.Instruction, _ func(ssa.Value) AV) string {
				if isCallInstrTo("database.Interface.flushWriteCache")(in) {
					return "flush"
				}
				if _, ok := in.(*ssa.Return); ok {
					return "ret"
				}
				return ""
			}
			it.Mark = func(in ssa.Instruction) int {
				if isCallInstrTo("database.Interface.flushWriteCache")(in) {
					return 0
				}
				return -1
			}
			it.Run()
			flushed := len(it.Outcomes["flush"]) > 0
			retNoFlush := false
			for m := range it.Outcomes["ret"] {
				if m&1 == 0 {
					retNoFlush = true
				}
			}
			if delayed != "" && (!flushed || retNoFlush) {
				bad = append(bad, "with a write cache configured FlushCache can return without flushing")
			}
		}
		r.Check(len(bad) == 0, rule, fnKey(fc)+" / flush table", "flushes whenever delayed cache writes are configured", strings.Join(bad, "; "))
	}
}

func c02R5(c *Ctx, r *Report) {
	const rule = "C02-R5"
	r.SetFloor(rule, 3)
	const now, thr = 100, 10
	type variant struct {
		name string
		fn   *ssa.Function
	}
	var vs []variant
	if f := c.Func("database/storage/hashmap.(*HashMap).MaintainRecordStates"); f != nil {
		vs = append(vs, variant{fnKey(f), f})
	} else {
		r.Undecided(rule, "database/storage/hashmap.(*HashMap).MaintainRecordStates", "anchor function missing")
	}
	if f := c.Func("database/storage/bbolt.(*BBolt).MaintainRecordStates"); f != nil {
		for _, a := range f.AnonFuncs {
			vs = append(vs, variant{fnKey(a), a})
		}
	} else {
		r.Undecided(rule, "database/storage/bbolt.(*BBolt).MaintainRecordStates", "anchor function missing")
	}
	for _, v := range vs {
		fn := v.fn
		var bad []string
		table := map[string]string{}
		n := 0
		sawDelete := false
		for _, deleted := range []int64{-5, 0, 5, 50} {
			for _, expires := range []int64{0, 5, 500} {
				for _, shadow := range []bool{false, true} {
					it := &Interp{Fn: fn}
					it.Input = func(x ssa.Value) (AV, bool) {
						if fieldLoadOf(x, "database/record.Meta", "Deleted") {
							return avInt(deleted), true
						}
						if fieldLoadOf(x, "database/record.Meta", "Expires") {
							return avInt(expires), true
						}
						switch y := x.(type) {
						case *ssa.Parameter:
							if y.Name() == "shadowDelete" {
								return avBool(shadow), true
							}
						case *ssa.Call:
							if calleeName(&y.Call) == "time.Time.Unix" {
								if _, ok := isCallTo(y.Call.Args[0], "time.Now"); ok {
									return avInt(now), true
								}
								return avInt(thr), true
							}
						case *ssa.UnOp:
							if fv, ok := y.X.(*ssa.FreeVar); ok {
								switch fv.Name() {
								case "now":
									return avInt(now), true
								case "purgeThreshold":
									return avInt(thr), true
								case "shadowDelete":
									return avBool(shadow), true
								}
							}
						}
						return AV{}, false
					}
					it.Outcome = func(in ssa.Instruction, _ func(ssa.Value) AV) string {
						switch x := in.(type) {
						case *ssa.Call:
							switch calleeName(&x.Call) {
							case "builtin.delete", "go.etcd.io/bbolt.Cursor.Delete", "go.etcd.io/bbolt.Bucket.Delete":
								return "remove"
							}
						case *ssa.Store:
							if fr, ok := fieldOfAddr(x.Addr); ok && fr.Owner == "database/record.Meta" && fr.Name == "Deleted" {
								return "mark"
							}
						}
						return ""
					}
					if !it.Run() {
						r.Undecided(rule, v.name, "state budget exceeded")
						return
					}
					n++
					ls := outcomeLabels(it.Outcomes)
					key := fmt.Sprintf("Deleted=%d Expires=%d shadowDelete=%v (now=%d threshold=%d)", deleted, expires, shadow, now, thr)
					table[key] = strings.Join(ls, "|")
					expired := expires > 0 && expires < now
					invisible := deleted > 0 || expired
					for _, l := range ls {
						if l == "remove" {
							sawDelete = true
							if !invisible {
								bad = append(bad, "physically removes a visible record: "+key)
							}
							if shadow && deleted > 0 && deleted >= thr {
								bad = append(bad, "removes a shadow-deleted record before the purge threshold: "+key)
							}
						}
						if l == "mark" && !(deleted == 0 && expired && shadow) {
							bad = append(bad, "marks a record deleted that is not an expired, undeleted record under shadow delete: "+key)
						}
					}
				}
			}
		}
		if !sawDelete {
			continue // not the maintenance closure
		}
		r.Tables[rule+" "+v.name] = compressTable(table)
		r.Check(len(bad) == 0, rule, v.name+" / maintenance table", fmt.Sprintf("%d valuations: only invisible records are removed, only expired undeleted records are marked", n), strings.Join(uniq(bad), "; "))
	}
	// Controller.Put: shadowDelete x IsDeleted -> storage.Delete vs storage.Put
	if fn := c.Func("database.(*Controller).Put"); fn == nil {
		r.Undecided(rule, "database.(*Controller).Put", "anchor function missing")
	} else {
		var bad []string
		for bits := 0; bits < 4; bits++ {
			shadow, deleted := bits&1 != 0, bits&2 != 0
			it := &Interp{Fn: fn}
			it.Input = func(x ssa.Value) (AV, bool) {
				if fieldLoadOf(x, "database.Controller", "shadowDelete") {
					return avBool(shadow), true
				}
				if call, ok := x.(*ssa.Call); ok && calleeName(&call.Call) == "database/record.Meta.IsDeleted" {
					return avBool(deleted), true
				}
				return AV{}, false
			}
			it.Outcome = func(in ssa.Instruction, _ func(ssa.Value) AV) string {
				if ci, ok := in.(*ssa.Call); ok {
					switch calleeName(&ci.Call) {
					case "database/storage.Interface.Delete":
						return "delete"
					case "database/storage.Interface.Put":
						return "put"
					}
				}
				return ""
			}
			it.Run()
			ls := strings.Join(outcomeLabels(it.Outcomes), "|")
			want := "put"
			if !shadow && deleted {
				want = "delete"
			}
			if ls != want {
				bad = append(bad, fmt.Sprintf("shadowDelete=%v deleted=%v -> %s (expected %s)", shadow, deleted, ls, want))
			}
		}
		r.Check(len(bad) == 0, rule, fnKey(fn)+" / delete-vs-put table", "immediate delete exactly when shadow delete is off and the record is deleted", strings.Join(bad, "; "))
	}
}

func c02R6(c *Ctx, r *Report) {
	const rule = "C02-R6"
	r.SetFloor(rule, 6)
	top := c.Func("database/storage/bbolt.(*BBolt).Purge")
	if top == nil {
		r.Undecided(rule, "database/storage/bbolt.(*BBolt).Purge", "anchor function missing")
		return
	}
	prefix := callGuard("bytes.HasPrefix(key, prefix)", true, "bytes.HasPrefix")
	notDeleted := callGuard("!IsDeleted()", false, "database/record.Meta.IsDeleted")
	matches := callGuard("MatchesRecord()==true", true, "database/query.Query.MatchesRecord")
	for _, fn := range withAnons(top) {
		ord := map[string]int{}
		for _, ci := range callsIn(fn, "go.etcd.io/bbolt.Cursor.Delete", "go.etcd.io/bbolt.Bucket.Put", "go.etcd.io/bbolt.Bucket.Delete") {
			cons := ordinal(ord, fmt.Sprintf("%s / %s", fnKey(fn), descInstr(ci)))
			c.RequireGuards(r, rule, cons, fn, ci, prefix, notDeleted, matches)
		}
	}
	// termination flag discipline: the outer loop variable `done` is set only at end of data, prefix end, or cancellation
	var doneCell *ssa.Alloc
	eachInstr(top, func(in ssa.Instruction) {
		if al, ok := in.(*ssa.Alloc); ok && al.Comment == "done" {
			doneCell = al
		}
	})
	if doneCell == nil {
		// is the transaction call inside a loop?
		looped := false
		for _, ci := range callsIn(top, "go.etcd.io/bbolt.DB.Update") {
			if ReachInstr(top, ci, func(in ssa.Instruction) bool { return in == ssa.Instruction(ci) }, nil) != nil {
				looped = true
			}
		}
		if looped {
			r.Bad(rule, fnKey(top)+" / termination flag", "the batch loop around the purge transaction does not share a termination flag with the cursor loop: whether the purge continues after a batch boundary (every 1000 deletions) is not decided by the cursor state, so the purge stops early or never")
		} else {
			r.Trivial(rule, fnKey(top)+" / termination flag", "single transaction, no batch loop")
		}
		return
	}
	cursorEnd := Guard{Name: "cursor exhausted (key == nil)", Truthy: false, Match: func(b ssa.Value) bool {
		if _, ok := b.Type().Underlying().(*types.Slice); !ok {
			return false
		}
		ls := c.Leaves(b)
		if len(ls) == 0 {
			return false
		}
		for _, l := range ls {
			if _, ok := isCallTo(l, "go.etcd.io/bbolt.Cursor.Seek", "go.etcd.io/bbolt.Cursor.Next", "go.etcd.io/bbolt.Cursor.First"); !ok {
				return false
			}
		}
		return true
	}}
	prefixEnd := callGuard("prefix no longer matches", false, "bytes.HasPrefix")
	cancelled := selectCaseGuard("context cancelled", types.RecvOnly, func(ch ssa.Value) bool {
		call, ok := ch.(*ssa.Call)
		return ok && call.Call.IsInvoke() && call.Call.Method.Name() == "Done"
	})
	k := 0
	var visit func(fn *ssa.Function, addr ssa.Value)
	visit = func(fn *ssa.Function, addr ssa.Value) {
		eachInstr(fn, func(in ssa.Instruction) {
			switch x := in.(type) {
			case *ssa.Store:
				if x.Addr != addr {
					return
				}
				b, isC := constBool(x.Val)
				if isC && !b {
					return
				}
				k++
				cons := fmt.Sprintf("%s / purge loop ends #%d", fnKey(fn), k)
				if fn == top {
					r.Bad(rule, cons, "the purge's termination flag is set outside the cursor loop: a batch boundary (every 1000 deletions) ends the whole purge", c.Pos(x.Pos()))
					return
				}
				path := ReachAvoiding(fn, nil, x.Block(), []Guard{cursorEnd, prefixEnd, cancelled})
				r.Check(path == nil, rule, cons, "the purge ends only at end of data, end of prefix or cancellation",
					"the purge can be marked finished although matching records remain (e.g. at a batch boundary)", c.pathString(path)...)
			case *ssa.MakeClosure:
				for i, b := range x.Bindings {
					if b == addr {
						cf := x.Fn.(*ssa.Function)
						visit(cf, cf.FreeVars[i])
					}
				}
			}
		})
	}
	visit(top, doneCell)
	if k == 0 {
		r.Undecided(rule, fnKey(top)+" / termination flag", "termination flag is never set")
	}
}

func c02R7(c *Ctx, r *Report) {
	const rule = "C02-R7"
	r.SetFloor(rule, 4)
	// Get of an absent key -> storage.ErrNotFound in every backend (some return value has that origin)
	backends := []string{"hashmap.(*HashMap)", "bbolt.(*BBolt)", "fstree.(*FSTree)", "badger.(*Badger)"}
	for _, b := range backends {
		name := "database/storage/" + b + ".Get"
		fn := c.Func(name)
		if fn == nil {
			r.Undecided(rule, name, "anchor function missing")
			continue
		}
		found := false
		for _, f := range withAnons(fn) {
			eachInstr(f, func(in ssa.Instruction) {
				if ret, ok := in.(*ssa.Return); ok {
					for i := range ret.Results {
						if hasOrigin(c.Origins(retVal(ret, i)), "field:global:database/storage.ErrNotFound") {
							found = true
						}
					}
				}
			})
		}
		r.Check(found, rule, name+" / absent -> storage.ErrNotFound", "maps an absent key to storage.ErrNotFound", "Get never returns storage.ErrNotFound: the controller cannot translate 'absent' to not-found")
	}
	// Delete of an absent key is not an error (hashmap and bbolt cannot fail for a missing key; fstree and badger must filter 'not exist')
	for _, t := range []struct{ fn, del, notExist string }{
		{"database/storage/fstree.(*FSTree).Delete", "os.Remove", "field:global:io/fs.ErrNotExist"},
		{"database/storage/badger.(*Badger).Delete$1", "github.com/dgraph-io/badger.Txn.Delete", "field:global:github.com/dgraph-io/badger.ErrKeyNotFound"},
	} {
		fn := c.Func(t.fn)
		if fn == nil {
			r.Undecided(rule, t.fn, "anchor function missing")
			continue
		}
		var delCall *ssa.Call
		eachInstr(fn, func(in ssa.Instruction) {
			if call, ok := in.(*ssa.Call); ok && calleeName(&call.Call) == t.del {
				delCall = call
			}
		})
		if delCall == nil {
			r.Undecided(rule, t.fn, "no "+t.del+" call")
			continue
		}
		absentOK := Guard{Name: "error is not 'does not exist'", Truthy: false, Match: func(b ssa.Value) bool {
			call, ok := isCallTo(b, "errors.Is")
			return ok && hasOrigin(c.Origins(call.Call.Args[1]), t.notExist)
		}}
		k := 0
		eachInstr(fn, func(in ssa.Instruction) {
			ret, ok := in.(*ssa.Return)
			if !ok || isNilConst(retVal(ret, 0)) {
				return
			}
			// error returns that stem from the delete call
			if !MustPrecede(fn, func(x ssa.Instruction) bool { return x == ssa.Instruction(delCall) }, ret) {
				return
			}
			k++
			c.RequireGuards(r, rule, fmt.Sprintf("%s / error exit #%d after the delete", t.fn, k), fn, ret, absentOK)
		})
	}
	// Controller translates storage.ErrNotFound to ErrNotFound
	for _, name := range []string{"database.(*Controller).Get", "database.(*Controller).GetMeta"} {
		fn := c.Func(name)
		if fn == nil {
			continue
		}
		ok := false
		eachInstr(fn, func(in ssa.Instruction) {
			if ret, isRet := in.(*ssa.Return); isRet && len(ret.Results) == 2 {
				if hasOrigin(c.Origins(retVal(ret, 1)), "field:global:database.ErrNotFound") {
					ok = true
				}
			}
		})
		r.Check(ok, rule, name+" / not-found translation", "returns database.ErrNotFound", "never returns database.ErrNotFound")
	}
	_ = sort.Strings
}

// c02R8: fstree query walk root. A prefix such as "users/al" names every key
// that extends it, including siblings inside the same directory; walking only
// the prefix path when it is a plain file loses them.
func c02R8(c *Ctx, r *Report) {
	const rule = "C02-R8"
	r.SetFloor(rule, 1)
	fn := c.Func("database/storage/fstree.(*FSTree).Query")
	ex := c.Func("database/storage/fstree.(*FSTree).queryExecutor")
	if fn == nil || ex == nil {
		r.Undecided(rule, "fstree.(*FSTree).Query", "anchor function missing")
		return
	}
	// queryExecutor walks its first parameter
	walks := callsIn(ex, "path/filepath.Walk", "path/filepath.WalkDir")
	if len(walks) == 0 {
		r.Undecided(rule, fnKey(ex)+" / filepath.Walk", "no directory walk found")
		return
	}
	rootParam := -1
	for _, w := range walks {
		p, ok := w.Common().Args[0].(*ssa.Parameter)
		if !ok {
			r.Undecided(rule, fnKey(ex)+" / filepath.Walk root", "walk root is not a parameter of the executor: "+vpath(w.Common().Args[0]))
			return
		}
		for i, q := range ex.Params {
			if q == p {
				rootParam = i
			}
		}
	}
	var launches []ssa.CallInstruction
	eachInstr(fn, func(in ssa.Instruction) {
		if ci, ok := in.(ssa.CallInstruction); ok && staticCallee(ci.Common()) == ex {
			launches = append(launches, ci)
		}
	})
	if len(launches) == 0 || rootParam < 0 {
		r.Undecided(rule, fnKey(fn)+" / launch of queryExecutor", "launch not found")
		return
	}
	isPrefixPath := func(v ssa.Value) bool {
		call, idx := callOf(v)
		return call != nil && idx == 0 && calleeName(&call.Call) == "database/storage/fstree.FSTree.buildFilePath"
	}
	isDirGuard := Guard{Name: "Stat(prefix path).IsDir()==true", Truthy: true, Match: func(b ssa.Value) bool {
		call, ok := b.(*ssa.Call)
		if !ok || !call.Call.IsInvoke() || call.Call.Method.Name() != "IsDir" {
			return false
		}
		st, idx := callOf(call.Call.Value)
		return st != nil && idx == 0 && (calleeName(&st.Call) == "os.Stat" || calleeName(&st.Call) == "os.Lstat") && isPrefixPath(st.Call.Args[0])
	}}
	for li, l := range launches {
		cons := fmt.Sprintf("%s / walk root #%d", fnKey(fn), li+1)
		var bad, undec []string
		seen := map[ssa.Value]bool{}
		var visit func(v ssa.Value, guarded bool)
		visit = func(v ssa.Value, guarded bool) {
			if ph, ok := v.(*ssa.Phi); ok {
				if seen[v] {
					return
				}
				seen[v] = true
				for i, e := range ph.Edges {
					visit(e, guarded || phiEdgeGuarded(fn, ph, i, isDirGuard))
				}
				return
			}
			switch {
			case isPrefixPath(v):
				if !guarded {
					bad = append(bad, "the prefix path itself is used as walk root without having been tested to be a directory")
				}
			case fieldLoadOf(v, "database/storage/fstree.FSTree", "basePath"):
			default:
				if call, ok := isCallTo(v, "path/filepath.Dir"); ok && isPrefixPath(call.Call.Args[0]) {
					return
				}
				if cst, ok := v.(*ssa.Const); ok && cst.Value != nil {
					// the zero value of an unassigned root on paths that return an error
					return
				}
				undec = append(undec, "walk root of unrecognised shape: "+vpath(v))
			}
		}
		visit(l.Common().Args[rootParam], false)
		switch {
		case len(bad) > 0:
			r.Bad(rule, cons, bad[0], c.Pos(l.Pos()))
		case len(undec) > 0:
			r.Undecided(rule, cons, undec[0])
		default:
			r.OK(rule, cons, "walk root is the prefix path only when it is a directory, else its parent directory")
		}
	}
}

// storageCallee: the callee is a storage-layer operation whose error says whether the data operation happened.
func storageCallee(cc *ssa.CallCommon) (string, bool) {
	if cc.IsInvoke() {
		if p := cc.Method.Pkg(); p != nil && strings.HasSuffix(p.Path(), "/database/storage") {
			return "storage." + cc.Method.Name(), true
		}
		return "", false
	}
	n := calleeName(cc)
	for _, pre := range []string{"database.Controller.", "database.Interface.", "database/storage/hashmap.HashMap.", "database/storage/bbolt.BBolt.",
		"database/storage/badger.Badger.", "database/storage/fstree.FSTree.", "database/storage/sinkhole.Sinkhole.", "database/storage/fstree.writeFile",
		"database.getController", "database.saveRegistry", "database.loadRegistry"} {
		if strings.HasPrefix(n, pre) {
			return n, true
		}
	}
	return "", false
}

func c02R10(c *Ctx, r *Report) {
	const rule = "C02-R10"
	r.SetFloor(rule, 40)
	var fns []*ssa.Function
	for _, p := range []string{"database", "database/storage/hashmap", "database/storage/bbolt", "database/storage/badger", "database/storage/fstree", "database/storage/sinkhole", "database/storage"} {
		fns = append(fns, c.FuncsIn(p)...)
	}
	errUseRule(c, r, rule, fns, func(fn *ssa.Function, cc *ssa.CallCommon) (string, bool) { return storageCallee(cc) }, map[string]string{
		"database.Register / database.saveRegistry":       "best-effort persistence of the registry after a registration; the registration itself already succeeded in memory",
		"database.registryWriter / database.saveRegistry": "periodic best-effort save; the next tick retries",
	})
}

func c02R11(c *Ctx, r *Report) {
	const rule = "C02-R11"
	r.SetFloor(rule, 1)
	fn := c.Func("database.(*Interface).updateCache")
	if fn == nil {
		r.Undecided(rule, "database.(*Interface).updateCache", "anchor function missing")
		return
	}
	var ttl *ssa.Parameter
	for _, p := range fn.Params {
		if p.Name() == "ttl" {
			ttl = p
		}
	}
	if ttl == nil {
		r.Undecided(rule, fnKey(fn), "ttl parameter not found")
		return
	}
	gs := cmpGuards("ttl < 0", func(v ssa.Value) bool { return v == ssa.Value(ttl) }, func(x int64) bool { return x < 0 }, 0)
	n := 0
	eachInstr(fn, func(in ssa.Instruction) {
		ci, ok := in.(ssa.CallInstruction)
		if !ok || !ci.Common().IsInvoke() || ci.Common().Method.Name() != "Set" {
			return
		}
		n++
		p := ReachTargetAvoiding(fn, in, gs, nil)
		r.Check(p == nil, rule, fnKey(fn)+" / cache.Set without expiry", "reachable only for ttl < 0 (record without expiry)",
			"a record with a remaining lifetime (ttl >= 0, including 0 = expires now) can be cached without expiry and is then served after it expired", append([]string{c.Pos(in.Pos())}, c.pathString(p)...)...)
	})
	if n == 0 {
		r.Undecided(rule, fnKey(fn), "no cache.Set call found")
	}
}

// c02R12: metadata semantics tables.
func c02R12(c *Ctx, r *Report) {
	const rule = "C02-R12"
	r.SetFloor(rule, 5)
	const now = int64(1000)
	metaInput := func(fields map[string]int64, extra func(v ssa.Value) (AV, bool)) func(v ssa.Value) (AV, bool) {
		return func(v ssa.Value) (AV, bool) {
			for f, val := range fields {
				if fieldLoadOf(v, "database/record.Meta", f) {
					return avInt(val), true
				}
			}
			if call, ok := v.(*ssa.Call); ok && calleeName(&call.Call) == "time.Time.Unix" {
				return avInt(now), true
			}
			if _, ok := v.(*ssa.Parameter); ok && v.Name() == "m" {
				return AV{K: KNonNil}, true
			}
			if extra != nil {
				return extra(v)
			}
			return AV{}, false
		}
	}
	run := func(name string, fields map[string]int64, extra func(v ssa.Value) (AV, bool), outcome func(in ssa.Instruction, ev func(ssa.Value) AV) string) (string, bool) {
		fn := c.Func(name)
		if fn == nil {
			return "", false
		}
		it := &Interp{Fn: fn, Input: metaInput(fields, extra), Outcome: outcome, FoldArith: true, MaxStates: 20000}
		if !it.Run() {
			return "", false
		}
		return strings.Join(outcomeLabels(it.Outcomes), "|"), true
	}
	// CheckValidity
	{
		var bad []string
		n := 0
		for _, del := range []int64{-5, 0, 5} {
			for _, exp := range []int64{-3, 0, now - 1, now, now + 1} {
				got, ok := run("database/record.(*Meta).CheckValidity", map[string]int64{"Deleted": del, "Expires": exp}, nil, retOutcome)
				if !ok {
					r.Undecided(rule, "database/record.(*Meta).CheckValidity", "function missing or not explorable")
					return
				}
				n++
				want := !(del > 0) && !(exp > 0 && exp < now)
				if got != fmt.Sprintf("ret(%v)", want) {
					bad = append(bad, fmt.Sprintf("Deleted=%d Expires=%d now=%d -> %s (expected %v)", del, exp, now, got, want))
				}
			}
		}
		r.Check(len(bad) == 0, rule, "database/record.(*Meta).CheckValidity / visibility table", fmt.Sprintf("%d valuations: visible iff not deleted and not past its expiry", n), strings.Join(firstN(bad, 4), "; "))
	}
	// IsDeleted
	{
		var bad []string
		for _, del := range []int64{-5, 0, 1, 5} {
			got, ok := run("database/record.(*Meta).IsDeleted", map[string]int64{"Deleted": del}, nil, retOutcome)
			if !ok {
				r.Undecided(rule, "database/record.(*Meta).IsDeleted", "function missing or not explorable")
				return
			}
			if got != fmt.Sprintf("ret(%v)", del > 0) {
				bad = append(bad, fmt.Sprintf("Deleted=%d -> %s", del, got))
			}
		}
		r.Check(len(bad) == 0, rule, "database/record.(*Meta).IsDeleted / table", "deleted iff Deleted > 0 (negative values are relative expiries)", strings.Join(bad, "; "))
	}
	// GetRelativeExpiry
	{
		var bad []string
		for _, exp := range []int64{0, now - 7, now, now + 7} {
			got, ok := run("database/record.(*Meta).GetRelativeExpiry", map[string]int64{"Expires": exp}, nil, retOutcome)
			if !ok {
				r.Undecided(rule, "database/record.(*Meta).GetRelativeExpiry", "function missing or not explorable")
				return
			}
			want := int64(-1)
			if exp != 0 {
				want = exp - now
				if want < 0 {
					want = 0
				}
			}
			if got != fmt.Sprintf("ret(%d)", want) {
				bad = append(bad, fmt.Sprintf("Expires=%d now=%d -> %s (expected %d)", exp, now, got, want))
			}
		}
		r.Check(len(bad) == 0, rule, "database/record.(*Meta).GetRelativeExpiry / table", "-1 without expiry, else max(0, Expires-now)", strings.Join(bad, "; "))
	}
	// Update: stores
	{
		var bad []string
		storeOutcome := func(in ssa.Instruction, ev func(ssa.Value) AV) string {
			if st, ok := in.(*ssa.Store); ok {
				if fr, ok := fieldOfAddr(st.Addr); ok && fr.Owner == "database/record.Meta" {
					return fr.Name + "=" + ev(st.Val).String()
				}
			}
			return ""
		}
		for _, created := range []int64{0, 77} {
			for _, del := range []int64{-60, 0, 5} {
				got, ok := run("database/record.(*Meta).Update", map[string]int64{"Created": created, "Deleted": del}, nil, storeOutcome)
				if !ok {
					r.Undecided(rule, "database/record.(*Meta).Update", "function missing or not explorable")
					return
				}
				want := []string{fmt.Sprintf("Modified=%d", now)}
				if created == 0 {
					want = append(want, fmt.Sprintf("Created=%d", now))
				}
				if del < 0 {
					want = append(want, fmt.Sprintf("Expires=%d", now-del))
				}
				sort.Strings(want)
				if got != strings.Join(want, "|") {
					bad = append(bad, fmt.Sprintf("Created=%d Deleted=%d -> writes %s (expected %s)", created, del, got, strings.Join(want, "|")))
				}
			}
		}
		r.Check(len(bad) == 0, rule, "database/record.(*Meta).Update / write table", "Modified=now; Created=now once; a relative expiry (negative Deleted) re-arms Expires=now+ttl", strings.Join(firstN(bad, 3), "; "))
	}
	// SetRelativateExpiry
	{
		var bad []string
		storeOutcome := func(in ssa.Instruction, ev func(ssa.Value) AV) string {
			if st, ok := in.(*ssa.Store); ok {
				if fr, ok := fieldOfAddr(st.Addr); ok && fr.Owner == "database/record.Meta" {
					return fr.Name + "=" + ev(st.Val).String()
				}
			}
			return ""
		}
		for _, secs := range []int64{-1, 0, 30} {
			got, ok := run("database/record.(*Meta).SetRelativateExpiry", nil, func(v ssa.Value) (AV, bool) {
				if p, ok := v.(*ssa.Parameter); ok && p.Name() == "seconds" {
					return avInt(secs), true
				}
				return AV{}, false
			}, storeOutcome)
			if !ok {
				r.Undecided(rule, "database/record.(*Meta).SetRelativateExpiry", "function missing or not explorable")
				return
			}
			want := ""
			if secs >= 0 {
				want = fmt.Sprintf("Deleted=%d", -secs)
			}
			if got != want {
				bad = append(bad, fmt.Sprintf("seconds=%d -> writes %q (expected %q)", secs, got, want))
			}
		}
		r.Check(len(bad) == 0, rule, "database/record.(*Meta).SetRelativateExpiry / write table", "a TTL >= 0 is stored as Deleted=-ttl, a negative TTL changes nothing", strings.Join(bad, "; "))
	}
}
