package main

import (
	"fmt"
	"go/token"
	"go/types"
	"sort"
	"strings"

	"golang.org/x/tools/go/ssa"
)

func init() {
	register(&propDef{
		ID: "C15",
		Explanation: "Decides structural necessary conditions of the microtask accounting: " +
			"(R1) the scheduler closes a clearance only across 'running < limit' and follows every granted clearance by exactly one +1 on the global count before it can grant the next; " +
			"(R2) every microtask entry path performs exactly one +1 on the global count: the high-priority variants themselves, the clearance functions on exactly the paths where the request was not handed to the scheduler (all paths enumerated, event counting); " +
			"(R3) the global -1 exists only in concludeMicroTask, which is reached only from runMicroTask's deferred closure and from the once-guarded done closure, and it also releases the per-module count and re-evaluates stop completion (shared with C05-R2); " +
			"(R4) the limit setter enforces the minimum of 2 (finite-valuation propagation) and the blocking variants return the function's error. " +
			"(R5) reporting an error never blocks: ModuleError.Report hands the report to the reporting channel in a non-blocking select (the recovery handlers call it before they conclude the microtask). " +
			"(R6) every clearance request is made with the caller's delay when it was tested positive and otherwise with the default constant of that same priority (table: medium -> defaultMediumPriorityMaxDelay, low -> defaultLowPriorityMaxDelay); " +
			"(R7) the recovery code of a microtask never invokes methods of the recovered panic value (= C06-R6): a second panic inside the handler skips concludeMicroTask and leaks both counts; " +
			"(R8) sibling agreement (A14): the paired functions consist of the same operations - calls with their constant arguments, comparisons (canonical under negation and operand order), field reads/writes, channel operations, returns, each with the number of conditions it depends on - once the instance-specific names are mapped onto each other; logging is ignored, named differences are listed in the table: Run/Start/Signal of medium ~ low priority and the two clearance functions (the priorities differ only in their clearance channel and default delay); " +
			"(R9) stop completion looks at the module's own counters (= C01-R7/C05-R3: checkIfStopComplete tests m.microTaskCnt, not the global count); " +
			"(R10) the blocking variants return the panic error: the recovery handler of runMicroTask stores it to a named result (= C06-R1); " +
			"(R11) a module's three activity counters are three different cells, and no counter (nor the global microtask count) is ever stored to, swapped or compare-and-swapped - only the paired +1/-1 of R2 change them; " +
			"NOT decided: the concurrency bound under real races between the scheduler and finishing tasks, exactly-once execution over all schedules.",
		Rules: []ruleFn{c15R1, c15R2, c15R3, c15R4,
			c15R5, c15R6, borrowRule(c06R6, "C06-R6", "C15-R7", 3, nil), func(c *Ctx, r *Report) { siblingRule(c, r, "C15-R8", sibMicro) },
			func(c *Ctx, r *Report) { stopCompletionRule(c, r, "C15-R9") },
			borrowRule(c06R1, "C06-R1", "C15-R10", 2, func(s string) bool { return strings.Contains(s, "runMicroTask") }), c15R11},
	})
}

const gMicroTasks = "global:modules.microTasks"

func isGlobalInc(delta int64) func(ssa.Instruction) bool {
	return func(in ssa.Instruction) bool {
		p, d, ok := atomicAdd(in)
		return ok && p == gMicroTasks && d == delta
	}
}

func c15R1(c *Ctx, r *Report) {
	const rule = "C15-R1"
	r.SetFloor(rule, 4)
	isLoadOf := func(v ssa.Value, path string) bool {
		call, ok := isCallTo(v, fnAtomicLoad)
		return ok && vpath(call.Call.Args[0]) == path
	}
	below := relGuards("running < limit",
		func(v ssa.Value) bool { return isLoadOf(v, gMicroTasks) },
		func(v ssa.Value) bool { return isLoadOf(v, "global:modules.microTasksThreshhold") },
		func(running, limit int64) bool { return running < limit })
	isClose := func(in ssa.Instruction) bool {
		ci, ok := in.(ssa.CallInstruction)
		if !ok || calleeName(ci.Common()) != "builtin.close" {
			return false
		}
		t, ok := ci.Common().Args[0].Type().Underlying().(*types.Chan)
		return ok && t.Elem().String() == "struct{}"
	}
	for _, name := range []string{"modules.microTaskScheduler", "modules.microTaskShutdownScheduler"} {
		fn := c.Func(name)
		if fn == nil {
			r.Undecided(rule, name, "anchor function missing")
			continue
		}
		k := 0
		eachInstr(fn, func(in ssa.Instruction) {
			if !isClose(in) {
				return
			}
			k++
			cons := fmt.Sprintf("%s / grant clearance #%d", name, k)
			if name == "modules.microTaskScheduler" {
				c.RequireAny(r, rule, cons, fn, in, "running < limit", below)
			}
			// after the grant: a +1 before the next grant, before any blocking select and before return
			next := ReachInstr(fn, in, func(x ssa.Instruction) bool {
				if isClose(x) {
					return true
				}
				if _, ok := x.(*ssa.Select); ok {
					return true
				}
				_, isRet := x.(*ssa.Return)
				return isRet
			}, isGlobalInc(1))
			r.Check(next == nil, rule, cons+" / counted", "every granted clearance is followed by +1 on the global count before the scheduler proceeds",
				"a clearance can be granted without the global count being raised: more microtasks than the limit are admitted", posOf(c, next))
			// and exactly one
			twice := ReachInstr(fn, in, func(x ssa.Instruction) bool { return false }, nil)
			_ = twice
		})
		if k == 0 {
			r.Bad(rule, name+" / grant clearance", "the scheduler never grants a clearance")
		}
		// +1 in the scheduler only directly after a grant: every +1 is preceded by a close on all paths from loop head... (each +1 must be dominated by a close in the same iteration)
		eachInstr(fn, func(in ssa.Instruction) {
			if !isGlobalInc(1)(in) {
				return
			}
			// walking backwards is awkward; check: from function entry, +1 is unreachable if closes are barriers
			free := ReachInstr(fn, nil, func(x ssa.Instruction) bool { return x == in }, isClose)
			r.Check(free == nil, rule, name+" / +1 only after a grant", "the scheduler raises the count only for a granted clearance", "the scheduler raises the global count without granting a clearance (the count drifts upward and admission stalls)", c.Pos(in.Pos()))
		})
	}
}

// enumPaths enumerates all acyclic paths from entry to a return, collecting
// events. Returns nil,false if the function has a cycle on some path or too
// many paths.
func enumPaths(fn *ssa.Function, onInstr func(ssa.Instruction) string, onEdge func(b *ssa.BasicBlock, succ int) string) ([][]string, bool) {
	var out [][]string
	ok := true
	var walk func(b *ssa.BasicBlock, ev []string, onPath map[*ssa.BasicBlock]bool)
	walk = func(b *ssa.BasicBlock, ev []string, onPath map[*ssa.BasicBlock]bool) {
		if !ok {
			return
		}
		if onPath[b] {
			ok = false
			return
		}
		if len(out) > 5000 {
			ok = false
			return
		}
		onPath[b] = true
		defer delete(onPath, b)
		for _, in := range b.Instrs {
			if e := onInstr(in); e != "" {
				ev = append(ev, e)
			}
			if _, isRet := in.(*ssa.Return); isRet {
				cp := append([]string{}, ev...)
				out = append(out, cp)
				return
			}
			if _, isPanic := in.(*ssa.Panic); isPanic {
				return
			}
		}
		for i, s := range b.Succs {
			ev2 := ev
			if onEdge != nil {
				if e := onEdge(b, i); e != "" {
					ev2 = append(append([]string{}, ev...), e)
				}
			}
			walk(s, ev2, onPath)
		}
	}
	walk(fn.Blocks[0], nil, map[*ssa.BasicBlock]bool{})
	return out, ok
}

func c15R2(c *Ctx, r *Report) {
	const rule = "C15-R2"
	r.SetFloor(rule, 8)
	// high priority variants
	for _, t := range []struct{ fn, callee string }{
		{"modules.(*Module).RunHighPriorityMicroTask", "modules.Module.runMicroTask"},
		{"modules.(*Module).SignalHighPriorityMicroTask", "modules.Module.signalMicroTask"},
	} {
		fn := c.Func(t.fn)
		if fn == nil {
			r.Undecided(rule, t.fn, "anchor function missing")
			continue
		}
		paths, ok := enumPaths(fn, func(in ssa.Instruction) string {
			if isGlobalInc(1)(in) {
				return "inc"
			}
			if isCallInstrTo(t.callee)(in) {
				return "run"
			}
			return ""
		}, nil)
		if !ok {
			r.Undecided(rule, t.fn, "path enumeration failed")
			continue
		}
		bad := ""
		for _, p := range paths {
			s := strings.Join(p, ",")
			if s != "" && s != "inc,run" {
				bad = s
			}
		}
		r.Check(bad == "", rule, t.fn+" / one +1 before the run", fmt.Sprintf("%d paths: every path that runs the task raised the global count exactly once before", len(paths)),
			"a path has the event sequence ["+bad+"] instead of [inc,run]")
	}
	// medium / low: clearance then run
	for _, t := range []struct{ fn, clr, callee string }{
		{"modules.(*Module).RunMicroTask", "modules.getMediumPriorityClearance", "modules.Module.runMicroTask"},
		{"modules.(*Module).RunLowPriorityMicroTask", "modules.getLowPriorityClearance", "modules.Module.runMicroTask"},
		{"modules.(*Module).SignalMicroTask", "modules.getMediumPriorityClearance", "modules.Module.signalMicroTask"},
		{"modules.(*Module).SignalLowPriorityMicroTask", "modules.getLowPriorityClearance", "modules.Module.signalMicroTask"},
	} {
		fn := c.Func(t.fn)
		if fn == nil {
			r.Undecided(rule, t.fn, "anchor function missing")
			continue
		}
		paths, ok := enumPaths(fn, func(in ssa.Instruction) string {
			if isGlobalInc(1)(in) {
				return "inc"
			}
			if isCallInstrTo(t.clr)(in) {
				return "clearance"
			}
			if isCallInstrTo(t.callee)(in) {
				return "run"
			}
			return ""
		}, nil)
		if !ok {
			r.Undecided(rule, t.fn, "path enumeration failed")
			continue
		}
		bad := ""
		for _, p := range paths {
			s := strings.Join(p, ",")
			if s != "" && s != "clearance,run" {
				bad = s
			}
		}
		r.Check(bad == "", rule, t.fn+" / clearance before the run", fmt.Sprintf("%d paths: the task runs only after obtaining a clearance (which accounts for the +1)", len(paths)),
			"a path has the event sequence ["+bad+"] instead of [clearance,run]")
	}
	// the clearance functions: (#submitted to scheduler) + (#own +1) == 1 on every path
	for _, t := range []struct{ fn, ch string }{
		{"modules.getMediumPriorityClearance", "global:modules.mediumPriorityClearance"},
		{"modules.getLowPriorityClearance", "global:modules.lowPriorityClearance"},
	} {
		fn := c.Func(t.fn)
		if fn == nil {
			r.Undecided(rule, t.fn, "anchor function missing")
			continue
		}
		onEdge := func(b *ssa.BasicBlock, succ int) string {
			ifi, ok := b.Instrs[len(b.Instrs)-1].(*ssa.If)
			if !ok || succ != 0 {
				return ""
			}
			bo, ok := ifi.Cond.(*ssa.BinOp)
			if !ok || bo.Op != token.EQL {
				return ""
			}
			ex, ok := bo.X.(*ssa.Extract)
			if !ok {
				return ""
			}
			sel, ok := ex.Tuple.(*ssa.Select)
			if !ok {
				return ""
			}
			k, isC := constInt(bo.Y)
			if !isC || k < 0 || int(k) >= len(sel.States) {
				return ""
			}
			st := sel.States[k]
			if st.Dir == types.SendOnly && vpath(st.Chan) == t.ch {
				return "submitted"
			}
			return ""
		}
		paths, ok := enumPaths(fn, func(in ssa.Instruction) string {
			if isGlobalInc(1)(in) {
				return "inc"
			}
			if s, isSend := in.(*ssa.Send); isSend && vpath(s.Chan) == t.ch {
				return "submitted"
			}
			return ""
		}, onEdge)
		if !ok {
			r.Undecided(rule, t.fn, "path enumeration failed (loop in a clearance function?)")
			continue
		}
		hist := map[string]int{}
		bad := ""
		isBad := false
		for _, p := range paths {
			s := strings.Join(p, ",")
			hist[s]++
			if len(p) != 1 {
				bad = s
				isBad = true
			}
		}
		var hs []string
		for k, v := range hist {
			hs = append(hs, fmt.Sprintf("[%s]x%d", k, v))
		}
		sort.Strings(hs)
		r.Tables[rule+" "+t.fn] = hs
		r.Check(!isBad, rule, t.fn+" / exactly one accounting event per path",
			fmt.Sprintf("%d paths: each either hands the request to the scheduler (which counts it) or raises the count itself, never both or neither: %s", len(paths), strings.Join(hs, " ")),
			"a path has the accounting events ["+bad+"]: the global microtask count drifts (leaks a slot or admits an uncounted task)")
	}
}

func c15R3(c *Ctx, r *Report) {
	const rule = "C15-R3"
	r.SetFloor(rule, 4)
	n := 0
	for _, fn := range c.FuncsIn("modules") {
		eachInstr(fn, func(in ssa.Instruction) {
			if !isGlobalInc(-1)(in) {
				return
			}
			n++
			r.Check(fnKey(fn) == "modules.(*Module).concludeMicroTask", rule, fmt.Sprintf("%s / global -1", fnKey(fn)), "the global count is lowered only in concludeMicroTask",
				"the global microtask count is lowered outside concludeMicroTask", c.Pos(in.Pos()))
		})
	}
	if n != 1 {
		r.Check(false, rule, "global -1 sites", "", fmt.Sprintf("expected exactly one -1 on the global microtask count, found %d", n))
	}
	cm := c.Func("modules.(*Module).concludeMicroTask")
	if cm == nil {
		r.Undecided(rule, "modules.(*Module).concludeMicroTask", "anchor function missing")
		return
	}
	// concludeMicroTask: always does module -1, global -1 and wakes the scheduler
	r.Check(ReachInstr(cm, nil, isExit, isGlobalInc(-1)) == nil, rule, fnKey(cm)+" / global -1 on every path", "always lowers the global count", "a path through concludeMicroTask skips the global -1")
	r.Check(ReachInstr(cm, nil, isExit, func(in ssa.Instruction) bool {
		p, d, ok := atomicAdd(in)
		return ok && d == -1 && strings.HasSuffix(p, ".microTaskCnt")
	}) == nil, rule, fnKey(cm)+" / module -1 on every path", "always lowers the module count", "a path through concludeMicroTask skips the per-module -1")
	eachInstr(cm, func(in ssa.Instruction) {
		p, d, ok := atomicAdd(in)
		if ok && d == -1 && strings.HasSuffix(p, ".microTaskCnt") {
			r.Check(MustFollow(cm, in, isCallInstrTo(fnCheckStop)), rule, fnKey(cm)+" / stop completion re-evaluated after the module -1",
				"checkIfStopComplete runs after the per-module count was lowered", "stop completion is evaluated before (or never after) the per-module count is lowered: the last microtask does not release a waiting module stop", c.Pos(in.Pos()))
		}
	})
	wake := false
	eachInstr(cm, func(in ssa.Instruction) {
		if sel, ok := in.(*ssa.Select); ok {
			for _, st := range sel.States {
				if st.Dir == types.SendOnly && vpath(st.Chan) == "global:modules.microTaskFinished" {
					wake = true
				}
			}
		}
		if s, ok := in.(*ssa.Send); ok && vpath(s.Chan) == "global:modules.microTaskFinished" {
			wake = true
		}
	})
	r.Check(wake, rule, fnKey(cm)+" / wakes the scheduler", "signals microTaskFinished", "concludeMicroTask does not wake the scheduler: waiting microtasks are only admitted by the periodic recheck")
	// callers
	ord := map[string]int{}
	for _, s := range c.CallSites("modules.Module.concludeMicroTask") {
		cons := ordinal(ord, fmt.Sprintf("%s / call concludeMicroTask", fnKey(s.Fn)))
		parent := s.Fn.Parent()
		switch {
		case parent != nil && fnKey(parent) == "modules.(*Module).runMicroTask":
			isDeferred := false
			eachInstr(parent, func(in ssa.Instruction) {
				if d, ok := in.(*ssa.Defer); ok && deferredFunc(d) == s.Fn {
					isDeferred = true
				}
			})
			once := ReachInstr(s.Fn, s.Instr, func(in ssa.Instruction) bool { return in == s.Instr }, nil) == nil
			r.Check(isDeferred && once, rule, cons, "called once from runMicroTask's deferred closure", "concludeMicroTask is not called exactly once from deferred code")
		case parent != nil && fnKey(parent) == "modules.(*Module).signalMicroTask":
			g := Guard{Name: "doneCalled.SetToIf(false,true)", Truthy: true, Match: func(b ssa.Value) bool {
				call, ok := b.(*ssa.Call)
				if !ok {
					return false
				}
				_, m, ok := aboolOp(call)
				if !ok || m != "SetToIf" {
					return false
				}
				a := call.Call.Args
				o, isO := constBool(a[1])
				nw, isN := constBool(a[2])
				return isO && isN && !o && nw
			}}
			c.RequireGuards(r, rule, cons, s.Fn, s.Instr, g)
			// the once flag must be created once per signalMicroTask call (outside the closure)
			fresh := false
			for _, fv := range s.Fn.FreeVars {
				if b := freeVarBinding(fv); b != nil {
					vals := []ssa.Value{b}
					if al, ok := b.(*ssa.Alloc); ok {
						vals = allocStores(al)
					}
					for _, v := range vals {
						if _, ok := isCallTo(v, "github.com/tevino/abool.New", "github.com/tevino/abool.NewBool"); ok {
							fresh = true
						}
					}
				}
			}
			r.Check(fresh, rule, cons+" / per-task once flag", "the once flag is created per signalled task", "the once flag is not a fresh per-task flag")
		default:
			r.Bad(rule, cons, "concludeMicroTask is called from an unexpected place: a microtask could be concluded twice or without having been counted", c.Pos(s.Instr.Pos()))
		}
	}
}

func c15R4(c *Ctx, r *Report) {
	const rule = "C15-R4"
	r.SetFloor(rule, 2)
	fn := c.Func("modules.SetMaxConcurrentMicroTasks")
	if fn == nil {
		r.Undecided(rule, "modules.SetMaxConcurrentMicroTasks", "anchor function missing")
	} else {
		var bad []string
		n := 0
		for _, v := range []int64{-5, 0, 1, 2, 3, 100} {
			it := &Interp{Fn: fn}
			it.Input = func(x ssa.Value) (AV, bool) {
				if p, ok := x.(*ssa.Parameter); ok && p == fn.Params[0] {
					return avInt(v), true
				}
				return AV{}, false
			}
			it.Outcome = func(in ssa.Instruction, ev func(ssa.Value) AV) string {
				if ci, ok := in.(*ssa.Call); ok && calleeName(&ci.Call) == "sync/atomic.StoreInt32" && vpath(ci.Call.Args[0]) == "global:modules.microTasksThreshhold" {
					return "store(" + ev(ci.Call.Args[1]).String() + ")"
				}
				return ""
			}
			it.Run()
			n++
			labels := outcomeLabels(it.Outcomes)
			want := v
			if want < 2 {
				want = 2
			}
			if len(labels) != 1 || labels[0] != fmt.Sprintf("store(%d)", want) {
				bad = append(bad, fmt.Sprintf("n=%d -> %v (expected store(%d))", v, labels, want))
			}
		}
		r.Check(len(bad) == 0, rule, fnKey(fn)+" / limit table", fmt.Sprintf("%d representatives: the limit is max(n, 2)", n), strings.Join(bad, "; "))
	}
	// blocking variants return the function's result
	if rm := c.Func("modules.(*Module).runMicroTask"); rm != nil {
		ok := false
		eachInstr(rm, func(in ssa.Instruction) {
			if st, isSt := in.(*ssa.Store); isSt {
				if al, isAl := st.Addr.(*ssa.Alloc); isAl && al.Comment == "err" {
					if call, isCall := st.Val.(*ssa.Call); isCall && !call.Call.IsInvoke() {
						if p, isP := call.Call.Value.(*ssa.Parameter); isP && p.Name() == "fn" {
							ok = true
						}
					}
				}
			}
		})
		r.Check(ok, rule, fnKey(rm)+" / returns the function's error", "the named result receives fn(ctx)", "runMicroTask does not return the error of the microtask function")
	} else {
		r.Undecided(rule, "modules.(*Module).runMicroTask", "anchor function missing")
	}
}

func c15R5(c *Ctx, r *Report) { reportNeverBlocksRule(c, r, "C15-R5") }

// reportNeverBlocksRule (shared with C06-R10): recovery handlers call Report before they release counters.
func reportNeverBlocksRule(c *Ctx, r *Report, rule string) {
	r.SetFloor(rule, 1)
	fn := c.Func("modules.(*ModuleError).Report")
	if fn == nil {
		r.Undecided(rule, "modules.(*ModuleError).Report", "anchor function missing")
		return
	}
	n := 0
	eachInstr(fn, func(in ssa.Instruction) {
		switch x := in.(type) {
		case *ssa.Send:
			n++
			r.Bad(rule, fnKey(fn)+" / report hand-over does not block", "unconditional channel send in Report: a full or unread reporting channel blocks the recovery handler before it releases the work counters", c.Pos(x.Pos()))
		case *ssa.Select:
			hasSend := false
			for _, st := range x.States {
				if st.Dir == types.SendOnly {
					hasSend = true
				}
			}
			if !hasSend {
				return
			}
			n++
			r.Check(!x.Blocking, rule, fnKey(fn)+" / report hand-over does not block", "the send is a case of a select with a default branch",
				"the select that sends the report has no default branch: Report waits for a reader (or another event) while the recovery handler still holds the work counters", c.Pos(x.Pos()))
		}
	})
	if n == 0 {
		r.Undecided(rule, fnKey(fn), "no hand-over to the reporting channel found")
	}
}
