package main

import (
	"fmt"
	"go/constant"
	"go/token"
	"go/types"
	"strings"

	"golang.org/x/tools/go/ssa"
)

func constStrVal(v ssa.Value) (string, bool) {
	c, ok := v.(*ssa.Const)
	if !ok || c.Value == nil || c.Value.Kind() != constant.String {
		return "", false
	}
	return constant.StringVal(c.Value), true
}

// isCharCmpVal: v is "x == ch" for a byte or rune x.
func isCharCmpVal(v ssa.Value, ch int64) bool {
	bo, ok := v.(*ssa.BinOp)
	if !ok || bo.Op != token.EQL {
		return false
	}
	k, isC := constInt(bo.Y)
	x := bo.X
	if !isC {
		k, isC = constInt(bo.X)
		x = bo.Y
	}
	if !isC || k != ch {
		return false
	}
	bt, ok := x.Type().Underlying().(*types.Basic)
	return ok && (bt.Kind() == types.Int32 || bt.Kind() == types.Uint8)
}

// c11R10: backslash escaping is symmetric between the printer and the parser.
func c11R10(c *Ctx, r *Report) {
	const rule = "C11-R10"
	r.SetFloor(rule, 6)
	// (a) escapeString: quoting condition and replacement chain
	if fn := c.Func("database/query.escapeString"); fn == nil {
		r.Undecided(rule, "database/query.escapeString", "anchor function missing")
	} else {
		tok := fn.Params[0]
		k := 0
		eachInstr(fn, func(in ssa.Instruction) {
			ret, ok := in.(*ssa.Return)
			if !ok || len(ret.Results) != 1 {
				return
			}
			k++
			v := retVal(ret, 0)
			emptyTok := Guard{Name: "token == \"\"", Truthy: true, Match: func(b ssa.Value) bool {
				bo, ok := b.(*ssa.BinOp)
				if !ok || bo.Op != token.EQL {
					return false
				}
				isEmpty := func(x ssa.Value) bool { s, ok := constStrVal(x); return ok && s == "" }
				isLen := func(x ssa.Value) bool {
					call, ok := x.(*ssa.Call)
					return ok && calleeName(&call.Call) == "builtin.len" && call.Call.Args[0] == ssa.Value(tok)
				}
				isZero := func(x ssa.Value) bool { n, ok := constInt(x); return ok && n == 0 }
				return (bo.X == ssa.Value(tok) && isEmpty(bo.Y)) || (bo.Y == ssa.Value(tok) && isEmpty(bo.X)) || (isLen(bo.X) && isZero(bo.Y)) || (isLen(bo.Y) && isZero(bo.X))
			}}
			if s, isS := constStrVal(v); isS && s == "\"\"" {
				// the empty token is printed as two quote characters
				cons := fmt.Sprintf("database/query.escapeString / return #%d (empty token quoted)", k)
				p := ReachTargetAvoiding(fn, ret, []Guard{emptyTok}, nil)
				r.Check(p == nil, rule, cons, "the constant \"\" is returned only for the empty token", "two quote characters are returned for a token that is not empty: its content is lost", c.Pos(ret.Pos()))
				return
			}
			if v == ssa.Value(tok) {
				// the empty token must not be printed bare: it would not be a token at all
				notEmpty := emptyTok
				notEmpty.Name, notEmpty.Truthy = "token != \"\"", false
				pe := ReachTargetAvoiding(fn, ret, []Guard{notEmpty}, nil)
				r.Check(pe == nil, rule, fmt.Sprintf("database/query.escapeString / return #%d (the empty token is not printed bare)", k), "the bare form is reachable only for a non-empty token",
					"an empty token (empty string operand or key) is printed as nothing: the printed query does not parse back, or parses to a different query (the next word is taken as the operand)", c.Pos(ret.Pos()))
				cons := fmt.Sprintf("database/query.escapeString / return #%d (token printed bare)", k)
				// only when no character needs quoting
				var set string
				g := Guard{Name: "ContainsAny(token, special) == false", Truthy: false, Match: func(b ssa.Value) bool {
					call, ok := isCallTo(b, "strings.ContainsAny")
					if !ok || call.Call.Args[0] != ssa.Value(tok) {
						return false
					}
					s, isS := constStrVal(call.Call.Args[1])
					if isS {
						set = s
					}
					return isS
				}}
				p := ReachTargetAvoiding(fn, ret, []Guard{g}, nil)
				missing := ""
				for _, ch := range "\"\\ \t\r\n()" {
					if !strings.ContainsRune(set, ch) {
						missing += fmt.Sprintf("%q ", ch)
					}
				}
				r.Check(p == nil && missing == "", rule, cons, "a token is printed without quotes only if it holds none of the tokenizer's separators, no quote and no backslash",
					"a token can be printed bare although it holds a character the tokenizer treats specially (missing from the test: "+missing+")", c.Pos(ret.Pos()))
				return
			}
			cons := fmt.Sprintf("database/query.escapeString / return #%d (quoted form)", k)
			inner := v
			wrapped := false
			if call, ok := isCallTo(v, "fmt.Sprintf"); ok {
				if f, isS := constStrVal(call.Call.Args[0]); isS && f == "\"%s\"" {
					if el := variadicElem(call, 0); el != nil {
						if mi, ok := el.(*ssa.MakeInterface); ok {
							el = mi.X
						}
						inner, wrapped = el, true
					}
				} else if isS {
					r.Bad(rule, cons, fmt.Sprintf("the token is formatted with %q: only \"%%s\" between two quotes keeps the token's bytes (e.g. %%q adds Go escape sequences the parser does not know)", f), c.Pos(ret.Pos()))
					return
				}
			} else if bo, ok := v.(*ssa.BinOp); ok && bo.Op == token.ADD {
				// "\"" + x + "\""
				if q, isS := constStrVal(bo.Y); isS && q == "\"" {
					if b2, ok := bo.X.(*ssa.BinOp); ok && b2.Op == token.ADD {
						if q2, isS := constStrVal(b2.X); isS && q2 == "\"" {
							inner, wrapped = b2.Y, true
						}
					}
				}
			}
			if !wrapped {
				r.Bad(rule, cons, "the quoted form is not the escaped token between two quote characters", c.Pos(ret.Pos()))
				return
			}
			// replacement chain, outermost first
			type pair struct{ old, new string }
			var chain []pair
			for {
				call, ok := isCallTo(inner, "strings.ReplaceAll")
				if !ok {
					break
				}
				o, ok1 := constStrVal(call.Call.Args[1])
				n, ok2 := constStrVal(call.Call.Args[2])
				if !ok1 || !ok2 {
					break
				}
				chain = append([]pair{{o, n}}, chain...)
				inner = call.Call.Args[0]
			}
			want := []pair{{"\\", "\\\\"}, {"\"", "\\\""}}
			same := inner == ssa.Value(tok) && len(chain) == len(want)
			for i := range want {
				if same && chain[i] != want[i] {
					same = false
				}
			}
			r.Check(same, rule, cons, "the token is escaped by doubling backslashes first and then prefixing quotes with a backslash - the exact inverse of the parser's unescaping",
				fmt.Sprintf("the escaping applied to the token (%v on %s) is not 'backslash -> double backslash, then quote -> backslash quote': the parser's unescaping does not invert it, so tokens with backslashes or quotes change", chain, leafDesc(inner)), c.Pos(ret.Pos()))
		})
	}
	// (b) scanners: the backslash case changes what the next iteration looks at
	for _, name := range []string{"database/query.extractSnippets", "database/query.prepToken", "database/query.endOfFirstToken"} {
		fn := c.Func(name)
		if fn == nil {
			r.Undecided(rule, name, "anchor function missing")
			continue
		}
		scannerEscapeRule(c, r, rule, fn)
	}
}

func scannerEscapeRule(c *Ctx, r *Report, rule string, fn *ssa.Function) {
	name := fnKey(fn)
	bs := Guard{Name: "char == '\\\\'", Truthy: true, Match: func(b ssa.Value) bool { return isCharCmpVal(b, '\\') }}
	isQuoteCmp := func(in ssa.Instruction) bool {
		v, ok := in.(ssa.Value)
		return ok && isCharCmpVal(v, '"')
	}
	hasBs := false
	eachInstr(fn, func(in ssa.Instruction) {
		if v, ok := in.(ssa.Value); ok && isCharCmpVal(v, '\\') {
			hasBs = true
		}
	})
	if !hasBs {
		r.Bad(rule, name+" / escape handling", "the scanner never tests for the escape character")
		return
	}
	reach := blockReach(fn)
	// idiom A: a boolean loop variable set under the backslash test
	for _, b := range fn.Blocks {
		for _, in := range b.Instrs {
			ph, ok := in.(*ssa.Phi)
			if !ok {
				break
			}
			bt, isB := ph.Type().Underlying().(*types.Basic)
			if !isB || bt.Kind() != types.Bool || !reach[b][b] {
				continue
			}
			set := false
			for i, e := range ph.Edges {
				if v, isC := constBool(e); isC && v && phiEdgeGuarded(fn, ph, i, bs) {
					set = true
				}
			}
			if !set {
				continue
			}
			// the flag's phis (loop header and merge points) form one class
			class := map[ssa.Value]bool{ph: true}
			for changed := true; changed; {
				changed = false
				for _, bb := range fn.Blocks {
					for _, y := range bb.Instrs {
						p2, ok := y.(*ssa.Phi)
						if !ok {
							break
						}
						if class[p2] {
							for _, e := range p2.Edges {
								if q, ok := e.(*ssa.Phi); ok && !class[q] {
									class[q] = true
									changed = true
								}
							}
							continue
						}
						for _, e := range p2.Edges {
							if class[e] {
								class[p2] = true
								changed = true
								break
							}
						}
					}
				}
			}
			// iteration marker: first non-phi instruction of the loop header (the class member entered from outside the loop)
			var marker ssa.Instruction
			for v := range class {
				hb := v.(*ssa.Phi).Block()
				outside := false
				for _, p := range hb.Preds {
					if !reach[hb][p] {
						outside = true
					}
				}
				if !outside {
					continue
				}
				for _, x := range hb.Instrs {
					if _, isPhi := x.(*ssa.Phi); !isPhi {
						marker = x
						break
					}
				}
			}
			if marker == nil {
				continue
			}
			isFlagTest := func(x ssa.Instruction) bool {
				ifi, ok := x.(*ssa.If)
				if !ok {
					return false
				}
				base, _ := peel(ifi.Cond)
				return class[base]
			}
			cons := name + " / escape flag " + ph.Comment
			bad := ReachInstr(fn, marker, isQuoteCmp, func(x ssa.Instruction) bool { return isFlagTest(x) || x == marker })
			r.Check(bad == nil, rule, cons+" is tested before any quote test", "in every iteration the escape flag is consulted before the character is compared with the quote",
				"a character is compared with the quote before the escape flag is consulted: an escaped quote ends the token", posOf(c, bad))
			// on the flag's true edge nothing classifies the character
			n := 0
			eachInstr(fn, func(x ssa.Instruction) {
				if !isFlagTest(x) {
					return
				}
				n++
				ifi := x.(*ssa.If)
				_, pos := peel(ifi.Cond)
				succ := x.Block().Succs[0]
				if !pos {
					succ = x.Block().Succs[1]
				}
				p := reachFromBlockStart(fn, succ, isQuoteCmp, nil, func(y ssa.Instruction) bool { return y == marker })
				r.Check(p == nil, rule, fmt.Sprintf("%s test #%d: escaped character is taken literally", cons, n), "with the flag set the character is not compared with the quote in this iteration",
					"with the escape flag set the character is still compared with the quote", c.pathString(p)...)
			})
			if n == 0 {
				r.Bad(rule, cons, "the escape flag is set but never tested")
			}
			return
		}
	}
	// idiom B: the index is advanced under the backslash test and the advance reaches the loop variable
	for _, b := range fn.Blocks {
		for _, in := range b.Instrs {
			ph, ok := in.(*ssa.Phi)
			if !ok {
				break
			}
			bt, isB := ph.Type().Underlying().(*types.Basic)
			if !isB || bt.Info()&types.IsInteger == 0 || !reach[b][b] {
				continue
			}
			// ADDs under the backslash guard whose operand derives from ph and whose result flows back into ph
			found := false
			eachInstr(fn, func(x ssa.Instruction) {
				bo, ok := x.(*ssa.BinOp)
				if !ok || bo.Op != token.ADD || found {
					return
				}
				if k, isC := constInt(bo.Y); !isC || k < 1 {
					return
				}
				if !derivesFromPhi(bo.X, ph, 0) || !flowsInto(bo, ph, map[ssa.Value]bool{}) {
					return
				}
				if ReachAvoiding(fn, nil, bo.Block(), []Guard{bs}) == nil {
					found = true
				}
			})
			if found {
				r.OK(rule, name+" / escape advances index "+ph.Comment, "under the backslash test the scan index is advanced and the advance reaches the loop variable")
				return
			}
		}
	}
	r.Bad(rule, name+" / escape handling", "the backslash case neither sets a flag that the next iteration tests nor advances the loop's own index: the character after a backslash is classified like any other (an escaped quote ends the token)")
}

func derivesFromPhi(v ssa.Value, ph *ssa.Phi, d int) bool {
	if d > 6 {
		return false
	}
	if v == ssa.Value(ph) {
		return true
	}
	switch x := v.(type) {
	case *ssa.BinOp:
		return derivesFromPhi(x.X, ph, d+1)
	case *ssa.Phi:
		for _, e := range x.Edges {
			if derivesFromPhi(e, ph, d+1) {
				return true
			}
		}
	}
	return false
}

// flowsInto: the value reaches phi through additions and other phis.
func flowsInto(v ssa.Value, ph *ssa.Phi, seen map[ssa.Value]bool) bool {
	if seen[v] {
		return false
	}
	seen[v] = true
	refs := v.Referrers()
	if refs == nil {
		return false
	}
	for _, ref := range *refs {
		switch x := ref.(type) {
		case *ssa.Phi:
			if x == ph || flowsInto(x, ph, seen) {
				return true
			}
		case *ssa.BinOp:
			if x.Op == token.ADD && flowsInto(x, ph, seen) {
				return true
			}
		}
	}
	return false
}
